#!/opt/veriftools/pyvenv/bin/python
"""Validate MANIFEST.json and evidence/*.json against the harness schemas."""
import glob, json, sys
import jsonschema
ok = True
def v(path, schema):
    global ok
    try:
        jsonschema.validate(json.load(open(path)), json.load(open(schema)))
        print("valid  ", path)
    except Exception as e:
        ok = False
        print("INVALID", path, str(e)[:300])
v("MANIFEST.json", "/root/.vp/MANIFEST.schema.json")
for p in sorted(glob.glob("evidence/*.json")):
    v(p, "/root/.vp/EVIDENCE.schema.json")
sys.exit(0 if ok else 1)
