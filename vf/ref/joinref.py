"""Reference join for 2-Einsum workloads: exhaustive combination of per-Einsum pmappings whose
TREES agree on the shared tensors (decided from the trees, never from the mapper's
Compatibility objects), and a merger that builds the fused LoopTree."""
import itertools


def shared_tensors(w):
    users = {}
    for e in w["einsums"]:
        for t in e["tensors"]:
            users.setdefault(t["name"], set()).add(e["name"])
    return sorted(t for t, u in users.items() if len(u) > 1)


def prefix_info(tree, shared):
    """For a single-Einsum linear tree: position of the deepest backing node among the shared tensors,
    and per shared tensor (backing component, loops above it as [(run_index, rv, tile)])."""
    info = {}
    run = 0
    loops = []
    seen = set()
    last_pos = -1
    for i, n in enumerate(tree):
        if n["t"] == "S":
            for t in n["tensors"]:
                if t in shared and t not in seen:
                    seen.add(t)
                    info[t] = {"comp": n["comp"], "loops": list(loops), "pos": i}
                    last_pos = i
            run += 1
        elif n["t"] == "T":
            loops.append((run, n["rv"], n["tile"]))
    return info, last_pos


def loops_compatible(la, lb):
    """Same multiset of (rv, tile) and a common order exists when loops may be permuted inside a run
    (a run = maximal sequence of loops with no storage node in between)."""
    if sorted((rv, t) for _, rv, t in la) != sorted((rv, t) for _, rv, t in lb):
        return False
    ra = {(rv, t): r for r, rv, t in la}
    rb = {(rv, t): r for r, rv, t in lb}
    keys = list(ra)
    for x, y in itertools.combinations(keys, 2):
        if (ra[x] < ra[y] and rb[x] > rb[y]) or (ra[x] > ra[y] and rb[x] < rb[y]):
            return False
    return True


def compatible(tree_a, tree_b, shared):
    ia, _ = prefix_info(tree_a, shared)
    ib, _ = prefix_info(tree_b, shared)
    for t in shared:
        if t not in ia or t not in ib:
            return False
        if ia[t]["comp"] != ib[t]["comp"]:
            return False
        if not loops_compatible(ia[t]["loops"], ib[t]["loops"]):
            return False
    return True


def merge_prefix(pre_a, pre_b, mem_order=()):
    """Interleave two prefixes (node lists) that contain the same loops - identified by (rank variable, tile
    shape) - into one sequence consistent with both: a storage node is a barrier in its own sequence, loops
    between two barriers are unordered."""
    elems, before = [], {}

    def add_seq(seq, side):
        barrier_prev, cur_run = [], []
        for i, n in enumerate(seq):
            if n["t"] == "T":
                k = ("L", n["rv"], n["tile"])
                if k not in elems:
                    elems.append(k)
                before.setdefault(k, set()).update(barrier_prev)
                cur_run.append(k)
            else:
                k = ("S", side, i)
                elems.append(k)
                before.setdefault(k, set()).update(barrier_prev)
                before[k].update(cur_run)
                barrier_prev = barrier_prev + cur_run + [k]
                cur_run = []
    add_seq(pre_a, "a")
    add_seq(pre_b, "b")

    def level(k):
        if k[0] == "L":
            return (1, 0)
        n = (pre_a if k[1] == "a" else pre_b)[k[2]]
        return (0, list(mem_order).index(n["comp"]) if n["comp"] in mem_order else 99)
    order, placed = [], set()
    while len(order) < len(elems):
        avail = [k for k in elems if k not in placed and all(p in placed for p in before.get(k, ()))]
        if not avail:
            raise ValueError("no consistent prefix order")
        k = min(avail, key=lambda x: (level(x), elems.index(x)))
        order.append(k)
        placed.add(k)
    prefix, held = [], {}
    for k in order:
        if k[0] == "L":
            prefix.append({"t": "T", "rv": k[1], "tile": k[2]})
        else:
            n = (pre_a if k[1] == "a" else pre_b)[k[2]]
            tensors = [t for t in n["tensors"] if (n["comp"], t) not in held]
            for t in tensors:
                held[(n["comp"], t)] = True
            if tensors:
                nn = dict(n)
                nn["tensors"] = tensors
                nn["_from"] = (k[1], k[2])
                prefix.append(nn)
    return prefix


def _strip(nodes):
    out = []
    for n in nodes:
        n = dict(n)
        n.pop("_from", None)
        if n["t"] == "Q":
            n["branches"] = [_strip(b) for b in n["branches"]]
        out.append(n)
    return out


def merge(tree_a, tree_b, shared, mem_order=()):
    """Fused tree of two per-Einsum trees: merged prefix up to the deepest shared backing node, then a sequential split."""
    _, pa = prefix_info(tree_a, shared)
    _, pb = prefix_info(tree_b, shared)
    prefix = merge_prefix(tree_a[: pa + 1], tree_b[: pb + 1], mem_order)
    return _strip(prefix + [{"t": "Q", "branches": [list(tree_a[pa + 1:]), list(tree_b[pb + 1:])]}])


def merge_chain3(tree_a, tree_b, tree_c, shared_ab, shared_bc, mem_order=()):
    """Fused tree of a chain E0 -> E1 -> E2 (shared_ab between E0/E1, shared_bc between E1/E2)."""
    _, pa = prefix_info(tree_a, shared_ab)
    _, pb1 = prefix_info(tree_b, shared_ab)
    _, pb2 = prefix_info(tree_b, shared_bc)
    _, pc = prefix_info(tree_c, shared_bc)
    if pb1 <= pb2:
        bc = merge_prefix(tree_b[: pb2 + 1], tree_c[: pc + 1], mem_order)
        # split the B/C prefix right after B's node that backs the E0/E1 tensor
        cut = max(i for i, n in enumerate(bc) if n.get("_from") == ("a", pb1)) if any(n.get("_from") == ("a", pb1) for n in bc) else -1
        part1, part2 = _strip(bc[: cut + 1]), _strip(bc[cut + 1:])
        m1 = merge_prefix(tree_a[: pa + 1], part1, mem_order)
        inner = part2 + [{"t": "Q", "branches": [list(tree_b[pb2 + 1:]), list(tree_c[pc + 1:])]}]
        return _strip(m1 + [{"t": "Q", "branches": [list(tree_a[pa + 1:]), inner]}])
    ab = merge_prefix(tree_a[: pa + 1], tree_b[: pb1 + 1], mem_order)
    cut = max(i for i, n in enumerate(ab) if n.get("_from") == ("b", pb2)) if any(n.get("_from") == ("b", pb2) for n in ab) else -1
    part1, part2 = _strip(ab[: cut + 1]), _strip(ab[cut + 1:])
    m1 = merge_prefix(part1, tree_c[: pc + 1], mem_order)
    inner = part2 + [{"t": "Q", "branches": [list(tree_a[pa + 1:]), list(tree_b[pb1 + 1:])]}]
    return _strip(m1 + [{"t": "Q", "branches": [inner, list(tree_c[pc + 1:])]}])
