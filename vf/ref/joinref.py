"""Reference join for 2-Einsum workloads: exhaustive combination of per-Einsum pmappings whose
TREES agree on the shared tensors (decided from the trees, never from the mapper's
Compatibility objects), and a merger that builds the fused LoopTree."""
import itertools


def shared_tensors(w):
    users = {}
    for e in w["einsums"]:
        for t in e["tensors"]:
            users.setdefault(t["name"], set()).add(e["name"])
    return sorted(t for t, u in users.items() if len(u) > 1)


def prefix_info(tree, shared):
    """For a single-Einsum linear tree: position of the deepest backing node among the shared tensors,
    and per shared tensor (backing component, loops above it as [(run_index, rv, tile)])."""
    info = {}
    run = 0
    loops = []
    seen = set()
    last_pos = -1
    for i, n in enumerate(tree):
        if n["t"] == "S":
            for t in n["tensors"]:
                if t in shared and t not in seen:
                    seen.add(t)
                    info[t] = {"comp": n["comp"], "loops": list(loops), "pos": i}
                    last_pos = i
            run += 1
        elif n["t"] == "T":
            loops.append((run, n["rv"], n["tile"]))
    return info, last_pos


def loops_compatible(la, lb):
    """Same multiset of (rv, tile) and a common order exists when loops may be permuted inside a run
    (a run = maximal sequence of loops with no storage node in between)."""
    if sorted((rv, t) for _, rv, t in la) != sorted((rv, t) for _, rv, t in lb):
        return False
    ra = {(rv, t): r for r, rv, t in la}
    rb = {(rv, t): r for r, rv, t in lb}
    keys = list(ra)
    for x, y in itertools.combinations(keys, 2):
        if (ra[x] < ra[y] and rb[x] > rb[y]) or (ra[x] > ra[y] and rb[x] < rb[y]):
            return False
    return True


def compatible(tree_a, tree_b, shared):
    ia, _ = prefix_info(tree_a, shared)
    ib, _ = prefix_info(tree_b, shared)
    for t in shared:
        if t not in ia or t not in ib:
            return False
        if ia[t]["comp"] != ib[t]["comp"]:
            return False
        if not loops_compatible(ia[t]["loops"], ib[t]["loops"]):
            return False
    return True


def merge(tree_a, tree_b, shared, mem_order=()):
    """Fused tree: a common prefix holding both Einsums' nodes that sit above the (deepest) shared backing
    node, in an order consistent with both trees, then a sequential split with the two remainders."""
    ia, pa = prefix_info(tree_a, shared)
    ib, pb = prefix_info(tree_b, shared)
    pre_a, rest_a = tree_a[: pa + 1], tree_a[pa + 1:]
    pre_b, rest_b = tree_b[: pb + 1], tree_b[pb + 1:]
    # elements: loops identified by (rv, tile); storage nodes by (side, index)
    elems, before = [], {}

    def add_seq(seq, side):
        barrier_prev = []      # everything that must precede the current run
        cur_run = []
        for i, n in enumerate(seq):
            if n["t"] == "T":
                k = ("L", n["rv"], n["tile"])
                if k not in elems:
                    elems.append(k)
                before.setdefault(k, set()).update(barrier_prev)
                cur_run.append(k)
            else:
                k = ("S", side, i)
                elems.append(k)
                before.setdefault(k, set()).update(barrier_prev)
                before[k].update(cur_run)
                barrier_prev = barrier_prev + cur_run + [k]
                cur_run = []
        return barrier_prev + cur_run
    add_seq(pre_a, "a")
    add_seq(pre_b, "b")
    # topological order; among the available elements storage nodes go first, outer memories before inner
    # ones (keeps the memory hierarchy order in the shared prefix), then loops
    def level(k):
        if k[0] == "L":
            return (1, 0)
        n = (pre_a if k[1] == "a" else pre_b)[k[2]]
        return (0, mem_order.index(n["comp"]) if n["comp"] in mem_order else 99)
    order, placed = [], set()
    while len(order) < len(elems):
        avail = [k for k in elems if k not in placed and all(p in placed for p in before.get(k, ()))]
        if not avail:
            raise ValueError("no consistent prefix order")
        k = min(avail, key=lambda x: (level(x), elems.index(x)))
        order.append(k)
        placed.add(k)
    prefix = []
    held = {}
    for k in order:
        if k[0] == "L":
            prefix.append({"t": "T", "rv": k[1], "tile": k[2]})
        else:
            n = (pre_a if k[1] == "a" else pre_b)[k[2]]
            tensors = [t for t in n["tensors"] if (n["comp"], t) not in held]
            for t in tensors:
                held[(n["comp"], t)] = True
            if tensors:
                nn = dict(n)
                nn["tensors"] = tensors
                prefix.append(nn)
    return prefix + [{"t": "Q", "branches": [list(rest_a), list(rest_b)]}]
