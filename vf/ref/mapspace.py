"""Brute-force mapspace enumerator for single-Einsum specs on a memory hierarchy (reference;
uses nothing of the mapper).  It enumerates CONCRETE LoopTrees from the spec's declared
freedoms only:

* which tensors each inner memory holds:  keep <= S <= keep | may_keep  (set expressions
  evaluated by the validator's own frozenset evaluator; `~MainMemory` = tensors without a
  MainMemory node);
* one storage node per (memory, tensor); all nodes of an outer memory above all nodes of an
  inner one (force_memory_hierarchy_order), any order inside a memory;
* temporal loops in every gap between consecutive nodes and below the last one: per rank
  variable a strictly decreasing divisor chain of its bound ending in 1, each loop of the
  chain in its own gap (adjacent loops over one variable collapse, one-iteration loops are
  dropped); inside a gap every order of the variables present (only when some memory is
  finite: the order changes nothing but occupancy).
"""
import itertools

from .validator import _eval_expr, _keep_env


class OverBudget(Exception):
    pass


def divisor_chains(b):
    """All strictly decreasing chains b > t1 > ... > tk = 1 with t_{i+1} | t_i and t1 | b... (tile shapes)."""
    if b == 1:
        return [[]]
    out = []

    def rec(cur, chain):
        for d in range(1, cur):
            if cur % d == 0:
                if d == 1:
                    out.append(chain + [1])
                else:
                    rec(d, chain + [d])
    rec(b, [])
    return out


def subsets_between(lo, hi):
    extra = sorted(hi - lo)
    for k in range(len(extra) + 1):
        for c in itertools.combinations(extra, k):
            yield frozenset(lo | set(c))


def storage_choices(desc):
    """Yields dict memory -> frozenset of tensors held (innermost memories included)."""
    w, a = desc["workload"], desc["arch"]
    e = w["einsums"][0]
    mems = a["mems"]
    names = [m["name"] for m in mems]
    tensors = frozenset(t["name"] for t in e["tensors"])

    def rec(i, chosen):
        if i == len(mems):
            if all(any(t in chosen[m] for m in names) for t in tensors):
                yield dict(chosen)
            return
        # sets of outer memories are known; evaluate this memory's keep / may_keep
        path = [{"t": "S", "comp": n, "tensors": sorted(chosen[n])} for n in names[:i]]
        env, full = _keep_env(w, e["name"], path, names)
        keep = _eval_expr(mems[i].get("keep", "Nothing"), env, full)
        may = _eval_expr(mems[i].get("may_keep", "Nothing"), env, full)
        for s in subsets_between(frozenset(keep), frozenset(keep | may)):
            chosen[names[i]] = s
            yield from rec(i + 1, chosen)
        chosen.pop(names[i], None)
    yield from rec(0, {})


def enumerate_trees(desc, budget=20000, with_orders=None):
    """Generator of plain trees; raises OverBudget when more than `budget` trees exist."""
    w, a = desc["workload"], desc["arch"]
    e = w["einsums"][0]
    mems = a["mems"]
    rvs = sorted({v for t in e["tensors"] for v in t["proj"]})
    finite = any(m.get("size", "inf") != "inf" for m in mems)
    if with_orders is None:
        with_orders = finite
    chains = {rv: divisor_chains(w["ranks"][rv]) for rv in rvs}
    count = 0
    for choice in storage_choices(desc):
        top = {"t": "S", "tensors": sorted(choice[mems[0]["name"]]), "comp": mems[0]["name"]}
        if not top["tensors"]:
            continue
        inner_blocks = []
        for m in mems[1:]:
            ts = sorted(choice[m["name"]])
            inner_blocks.append([list(p) for p in itertools.permutations(ts)])
        for orders in itertools.product(*inner_blocks):
            nodes = []
            for m, ts in zip(mems[1:], orders):
                for t in ts:
                    nd = {"t": "S", "tensors": [t], "comp": m["name"]}
                    if m.get("kind") == "Toll":
                        nd["toll"] = True
                    nodes.append(nd)
            n_gaps = len(nodes) + 1
            # per rank variable: (chain, gaps) options
            per_rv = []
            for rv in rvs:
                opts = []
                for ch in chains[rv]:
                    if not ch:
                        opts.append(())
                        continue
                    for gaps in itertools.combinations(range(n_gaps), len(ch)):
                        opts.append(tuple(zip(gaps, ch)))
                per_rv.append(opts)
            for combo in itertools.product(*per_rv):
                gap_loops = [[] for _ in range(n_gaps)]
                for rv, placed in zip(rvs, combo):
                    for g, tile in placed:
                        gap_loops[g].append((rv, tile))
                gap_orders = [list(itertools.permutations(gl)) if (with_orders and len(gl) > 1) else [tuple(gl)] for gl in gap_loops]
                for go in itertools.product(*gap_orders):
                    count += 1
                    if count > budget:
                        raise OverBudget(count)
                    tree = [dict(top, tensors=list(top["tensors"]))]
                    for g in range(n_gaps):
                        for rv, tile in go[g]:
                            tree.append({"t": "T", "rv": rv, "tile": tile})
                        if g < len(nodes):
                            tree.append(dict(nodes[g], tensors=list(nodes[g]["tensors"])))
                    tree.append({"t": "C", "einsum": e["name"], "comp": a["mac"]["name"]})
                    yield tree
