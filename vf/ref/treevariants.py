"""Variants of a plain LoopTree that describe the SAME loop nest: adjacent storage nodes split into single-tensor
nodes in every order, and the storage nodes directly above a sequential split pushed down into the branches that use
the tensor.  Used to attribute a difference to the order dependence of the model's usage (C06 finding)."""
import itertools


def holder_order_variants(d, tree, cap=60):

    def variants(nodes):
        # maximal runs of adjacent storage nodes -> every order of their single-tensor nodes
        runs, i = [], 0
        while i < len(nodes):
            if nodes[i]["t"] == "S":
                j = i
                singles = []
                while j < len(nodes) and nodes[j]["t"] == "S":
                    for t in nodes[j]["tensors"]:
                        singles.append(dict(nodes[j], tensors=[t]))
                    j += 1
                runs.append((i, j, singles))
                i = j
            else:
                i += 1
        choices = []
        for (a, b, singles) in runs:
            perms = list(itertools.islice(itertools.permutations(singles), 24)) if len(singles) > 1 else [tuple(singles)]
            choices.append(perms)
        for combo in itertools.islice(itertools.product(*choices), cap):
            out, pos = [], 0
            for (a, b, _), perm in zip(runs, combo):
                out += nodes[pos:a] + list(perm)
                pos = b
            out += nodes[pos:]
            yield out

    def expand(nodes):
        # variants of the prefix x variants of every branch (bounded)
        qi = next((k for k, n in enumerate(nodes) if n["t"] == "Q"), None)
        if qi is None:
            yield from variants(nodes)
            return
        for pre in itertools.islice(variants(nodes[:qi]), 8):
            for brs in itertools.islice(itertools.product(*[list(itertools.islice(expand(b), 6)) for b in nodes[qi]["branches"]]), 12):
                yield pre + [dict(nodes[qi], branches=list(brs))] + nodes[qi + 1:]
    def pushed_down(nodes):
        """The storage nodes directly above a sequential split moved into every branch that uses the tensor (the
        joiner's own tree keeps shared holders inside the branches; the returned tree lifts them above the split)."""
        qi = next((k for k, n in enumerate(nodes) if n["t"] == "Q"), None)
        if qi is None:
            return None
        a = qi
        while a > 0 and nodes[a - 1]["t"] == "S":
            a -= 1
        if a == qi:
            return None
        lifted = [dict(n, tensors=[t]) for n in nodes[a:qi] for t in n["tensors"]]
        uses = {e["name"]: {t["name"] for t in e["tensors"]} for e in d["workload"]["einsums"]}

        def einsums(b):
            out = set()
            for n in b:
                if n["t"] == "C":
                    out.add(n["einsum"])
                elif n["t"] == "Q":
                    for bb in n["branches"]:
                        out |= einsums(bb)
            return out
        brs = []
        for b in nodes[qi]["branches"]:
            used = set().union(*[uses[e] for e in einsums(b)])
            brs.append([n for n in lifted if n["tensors"][0] in used] + list(b))
        return nodes[:a] + [dict(nodes[qi], branches=brs)] + nodes[qi + 1:]
    n = 0
    pd = pushed_down(tree)
    for v in itertools.chain(expand(pd) if pd else [], expand(tree)):
        n += 1
        if n > cap:
            return
        yield v
