"""Reference Pareto filter: O(n^2) dominance on the stored values (no accelforge code).

Dominance is decided in float64 on exactly the values the matrix holds (float32 and
int32-range values are exact in float64); +-inf compare as IEEE says.
"""
import numpy as np


def _factor(n):
    n = int(n)
    f = {}
    p = 2
    while p * p <= n:
        while n % p == 0:
            f[p] = f.get(p, 0) + 1
            n //= p
        p += 1
    if n > 1:
        f[n] = f.get(n, 0) + 1
    return f


def objective_matrix(data, goals):
    """(objectives to minimise [n,k] float64, list of group-key tuples)."""
    n = len(data)
    cols, groups = [], [[] for _ in range(n)]
    for j, g in enumerate(goals):
        col = [data[i][j] for i in range(n)]
        if g == "diff":
            for i in range(n):
                groups[i].append(col[i])
        elif g == "min":
            cols.append(np.array(col, dtype=np.float64))
        elif g == "max":
            cols.append(-np.array(col, dtype=np.float64))
        elif g in ("min_per_prime_factor", "max_per_prime_factor"):
            fs = [_factor(v) for v in col]
            primes = sorted({p for f in fs for p in f})
            sign = 1.0 if g.startswith("min") else -1.0
            for p in primes:
                cols.append(sign * np.array([f.get(p, 0) for f in fs], dtype=np.float64))
        else:
            raise ValueError(g)
    obj = np.stack(cols, axis=1) if cols else np.zeros((n, 0))
    return obj, [tuple(g) for g in groups]


def pareto_mask(data, goals, distinct=True):
    """data: sequence of rows (python numbers). Returns list[bool]."""
    n = len(data)
    if n == 0:
        return []
    obj, groups = objective_matrix(data, goals)
    keep = np.ones(n, dtype=bool)
    by_group = {}
    for i, g in enumerate(groups):
        by_group.setdefault(g, []).append(i)
    for idx in by_group.values():
        idx = np.array(idx)
        o = obj[idx]
        if o.shape[1] == 0 or len(idx) == 1:
            continue
        # dom[a, b] : row b strictly dominates row a
        le = (o[None, :, :] <= o[:, None, :]).all(axis=2)
        lt = (o[None, :, :] < o[:, None, :]).any(axis=2)
        dominated = (le & lt).any(axis=1)
        keep[idx[dominated]] = False
    if distinct:
        seen = set()
        for i in range(n):
            key = tuple(data[i])
            if key in seen:
                keep[i] = False
            else:
                seen.add(key)
    return [bool(x) for x in keep]


def dominated_by(data, goals, i):
    """Index of a row strictly dominating row i (same group), or None."""
    obj, groups = objective_matrix(data, goals)
    for j in range(len(data)):
        if j != i and groups[j] == groups[i]:
            if (obj[j] <= obj[i]).all() and (obj[j] < obj[i]).any():
                return j
    return None


def front(vectors, tol=0.0):
    """Non-dominated subset of a list of equal-length minimisation vectors (dedup'd)."""
    vs = sorted(set(tuple(v) for v in vectors))
    out = []
    for v in vs:
        dom = False
        for w in vs:
            if w is v or w == v:
                continue
            if all(a <= b for a, b in zip(w, v)) and any(a < b for a, b in zip(w, v)):
                dom = True
                break
        if not dom:
            out.append(v)
    return out
