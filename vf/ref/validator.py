"""Structural validity of a returned LoopTree against the SPEC description (not against the
mapper's own constraint objects).  Returns a list of (code, detail)."""
import itertools

from ..gen import setexpr as sx


def einsum_paths(tree):
    """[(einsum, [nodes on the root-to-compute path], n_loops_above_splits)]"""
    out = []

    def rec(nodes, prefix, shared_loops):
        cur = list(prefix)
        for n in nodes:
            if n["t"] == "Q":
                sl = shared_loops + [x for x in cur if x["t"] in ("T", "P") and x not in shared_loops]
                for b in n["branches"]:
                    rec(b, cur, sl)
                return
            cur.append(n)
            if n["t"] == "C":
                out.append((n["einsum"], cur, list(shared_loops)))
    rec(tree, [], [])
    return out


def _keep_env(w_desc, einsum_name, path, mem_names):
    """Named tensor sets for set expressions of the architecture, for this Einsum and this mapping."""
    ww = {"einsums": [{"name": e["name"], "inputs": [t["name"] for t in e["tensors"] if not t["out"]],
                       "output": [t["name"] for t in e["tensors"] if t["out"]][0]} for e in w_desc["einsums"]],
          "persistent": []}
    env, full = sx.named_sets(ww, einsum_name)
    for m in mem_names:
        env[m] = frozenset(t for n in path if n["t"] == "S" and n["comp"] == m for t in n["tensors"]) & full
    return env, full


def _eval_expr(expr, env, full):
    class S(frozenset):
        def __invert__(self):
            return S(full - self)

        def __and__(self, o):
            return S(frozenset.__and__(self, o))

        def __or__(self, o):
            return S(frozenset.__or__(self, o))

        def __sub__(self, o):
            return S(frozenset.__sub__(self, o))

        def __xor__(self, o):
            return S(frozenset.__xor__(self, o))
    return frozenset(eval(expr, {"__builtins__": {}}, {k: S(v) for k, v in env.items()}))


def validate(desc, tree, check_capacity=True):
    w, a = desc["workload"], desc["arch"]
    mapper = desc.get("mapper") or {}
    problems = []
    paths = einsum_paths(tree)
    names = [e["name"] for e in w["einsums"]]
    seen = [p[0] for p in paths]
    for e in names:
        if seen.count(e) != 1:
            problems.append(("einsum_compute_count", {"einsum": e, "computes": seen.count(e)}))
    mem_order = [m["name"] for m in a["mems"]]
    mem_by = {m["name"]: m for m in a["mems"]}
    for e, path, shared in paths:
        ed = next(x for x in w["einsums"] if x["name"] == e)
        tensors = [t["name"] for t in ed["tensors"]]
        rvs = sorted({v for t in ed["tensors"] for v in (t["proj"] if isinstance(t["proj"], list) else
                                                        [x for terms in t["proj"].values() for x in terms if x != "_c"])})
        # ---- loops: every rank variable is iterated fully with perfectly factorising tile shapes
        for rv in rvs:
            cur = w["ranks"][rv]
            for n in path:
                if n["t"] in ("T", "P") and n["rv"] == rv:
                    t = n["tile"]
                    if not isinstance(t, int) or t < 1 or cur % t != 0 or t > cur:
                        problems.append(("imperfect_or_invalid_tile_shape", {"einsum": e, "rank_variable": rv, "enclosing": cur, "tile": t}))
                        break
                    cur = t
            if cur != 1:
                problems.append(("rank_variable_not_fully_iterated", {"einsum": e, "rank_variable": rv, "innermost_tile": cur}))
        for n in path:
            if n["t"] in ("T", "P") and n["rv"] not in rvs:
                problems.append(("loop_over_foreign_rank_variable", {"einsum": e, "rank_variable": n["rv"]}))
        # ---- storage: hierarchy order per tensor, every tensor has a holder, keep / may_keep respected
        for t in tensors:
            levels = [mem_order.index(n["comp"]) for n in path if n["t"] == "S" and t in n["tensors"] and n["comp"] in mem_order]
            if not levels:
                problems.append(("tensor_without_holder", {"einsum": e, "tensor": t}))
            if levels != sorted(levels):
                problems.append(("storage_order_violates_hierarchy", {"einsum": e, "tensor": t, "levels": levels}))
            if len(levels) != len(set(levels)):
                # well-formedness: one component holds one tile of a tensor at a time - two holders of the same
                # tensor in the same component on one root-to-compute path (the model refuses such a tree)
                problems.append(("tensor_held_twice_by_one_component", {"einsum": e, "tensor": t,
                                 "components": [n["comp"] for n in path if n["t"] == "S" and t in n["tensors"]]}))
        env, full = _keep_env(w, e, path, mem_order)
        for m in a["mems"]:
            held = env[m["name"]]
            try:
                keep = _eval_expr(m.get("keep", "Nothing"), env, full)
                may = _eval_expr(m.get("may_keep", "Nothing"), env, full)
            except Exception:
                continue
            if m.get("kind") == "Toll":
                continue
            missing = keep - held
            if missing:
                problems.append(("keep_tensor_missing", {"einsum": e, "memory": m["name"], "keep": m.get("keep"), "missing": sorted(missing)}))
            extra = held - keep - may
            if extra:
                problems.append(("tensor_stored_outside_keep_may_keep", {"einsum": e, "memory": m["name"], "extra": sorted(extra)}))
        # ---- fused-loop limits
        mfl = mapper.get("max_fused_loops", "inf")
        if mfl != "inf" and len(shared) > mfl:
            problems.append(("too_many_fused_loops", {"einsum": e, "fused_loops": [x["rv"] for x in shared], "limit": mfl}))
        per = mapper.get("max_fused_loops_per_rank_variable", 1)
        for rv in {x["rv"] for x in shared}:
            c = sum(1 for x in shared if x["rv"] == rv)
            if c > per:
                problems.append(("too_many_fused_loops_for_rank_variable", {"einsum": e, "rank_variable": rv, "count": c, "limit": per}))
        # ---- spatial fanout and loop-bound constraints
        iters = {}          # (component, dim) -> [(rank variable, iterations)]
        cur_size = dict(w["ranks"])
        for n in path:
            if n["t"] in ("T", "P"):
                it = cur_size[n["rv"]] // n["tile"] if isinstance(n["tile"], int) and n["tile"] else None
                if n["t"] == "P":
                    iters.setdefault((n["comp"], n["name"]), []).append((n["rv"], it))
                if isinstance(n["tile"], int):
                    cur_size[n["rv"]] = n["tile"]
        for (cname, dim), lst in iters.items():
            comp = mem_by.get(cname) or (a["mac"] if a["mac"]["name"] == cname else None)
            spd = None
            for sp in (comp or {}).get("spatial") or []:
                if sp["name"] == dim:
                    spd = sp
            if spd is None:
                problems.append(("spatial_loop_without_fanout", {"einsum": e, "component": cname, "dim": dim}))
                continue
            used = 1
            for _, it in lst:
                used *= it or 1
            if used > spd["fanout"]:
                problems.append(("fanout_exceeded", {"einsum": e, "component": cname, "dim": dim, "used": used, "fanout": spd["fanout"]}))
            for lb in spd.get("loop_bounds") or []:
                env_rv = {rv: frozenset([rv]) for rv in rvs}
                env_rv["All"] = frozenset(rvs)
                try:
                    target = _eval_expr(lb["expression"], env_rv, frozenset(rvs))
                except Exception:
                    continue
                bounds = [it for rv, it in lst if rv in target]
                op, val = lb["operator"], lb["value"]
                if op.startswith("product"):
                    pr = 1
                    for b in bounds:
                        pr *= b
                    vals, op2 = [pr], op[len("product"):]
                else:
                    vals, op2 = bounds, op
                import operator as _o
                fn = {"==": _o.eq, "<=": _o.le, ">=": _o.ge, "<": _o.lt, ">": _o.gt}[op2]
                bad = [v for v in vals if not fn(v, val)]
                if bad:
                    problems.append(("loop_bound_constraint_violated", {"einsum": e, "component": cname, "dim": dim,
                                                                       "constraint": lb, "spatial_loop_bounds": lst}))
    # ---- capacity: only the order-independent lower bracket decides (see C06)
    if check_capacity and not problems:
        from .occupancy import Occupancy
        arch = {m["name"]: {"kind": m.get("kind", "Memory"), "bits": m.get("bits_per_value")} for m in a["mems"]}
        try:
            oc = Occupancy(w, arch).run(tree)
            L = oc.peaks("L")
            for m in a["mems"]:
                if m.get("size", "inf") != "inf" and L.get(m["name"], 0) > m["size"] * (1 + 1e-9):
                    problems.append(("capacity_exceeded", {"memory": m["name"], "size_bits": m["size"], "value_granular_peak_bits": L[m["name"]]}))
        except Exception as ex:
            problems.append(("not_executable", {"error": f"{type(ex).__name__}: {str(ex)[:200]}"}))
    # spatial usage per (component, dim): product of iteration counts of its spatial loops <= fanout
    return problems
