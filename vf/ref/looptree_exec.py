"""Explicit LoopTree executor (reference model; imports nothing from accelforge).

It *runs* a mapping: every temporal loop is iterated, every storage node exchanges sets of
tensor coordinates with the nearest holder above it, every compute step touches one
coordinate per tensor.  Counted per (component, tensor, action) in VALUES; occupancy is a
time-stepped record of which tile instances are live at every compute step.

Tree nodes (plain dicts):
  {"t":"S","tensors":[..],"comp":X}   storage / toll holder
  {"t":"T","rv":v,"tile":n}           temporal loop: iterates tiles of n values of v
  {"t":"C","einsum":e,"comp":X}       compute
  {"t":"Q","branches":[[...],[...]]}  sequential split
Workload: {"ranks": {rv: bound}, "einsums": [{"name", "tensors":[{"name","proj":[rv..] or {rank: {rv: coef, "_c": c}}, "out"}]}]}
Arch attrs: {comp: {"kind": "Memory"|"Toll"|"Compute", "skip": bool, "direction": {tensor: "up"|"down"|"up_and_down"}}}
"""
import itertools
from collections import defaultdict


class Holder:
    __slots__ = ("comp", "tensor", "held", "dirty", "parent", "children", "node_id", "is_toll")

    def __init__(self, comp, tensor, node_id, is_toll):
        self.comp, self.tensor, self.node_id, self.is_toll = comp, tensor, node_id, is_toll
        self.held = None
        self.dirty = set()
        self.parent = None
        self.children = []


class Executor:
    def __init__(self, workload, arch):
        self.w = workload
        self.arch = arch
        self.einsums = {e["name"]: e for e in workload["einsums"]}
        self.out_tensors = {t["name"] for e in workload["einsums"] for t in e["tensors"] if t["out"]}
        self.counts = defaultdict(int)          # (comp, tensor, action) -> values
        self.computes = defaultdict(int)        # einsum -> ops
        self.written = defaultdict(set)         # tensor -> coords ever written by a compute
        self.step = 0
        self.trace = []                         # occupancy events, filled when track_occupancy
        self.track_occupancy = False

    # ------------------------------------------------------------------ helpers
    def skip(self, comp):
        return bool(self.arch.get(comp, {}).get("skip", True))

    def proj(self, einsum, tensor):
        for t in self.einsums[einsum]["tensors"]:
            if t["name"] == tensor:
                return t["proj"]
        raise KeyError((einsum, tensor))

    def tile_of(self, proj, ranges):
        """Set of coordinates touched when every rank variable spans its current range."""
        dims = []
        if isinstance(proj, list):
            for rv in proj:
                lo, hi = ranges[rv]
                dims.append(range(lo, hi))
        else:
            for rank, terms in proj.items():
                vs = [(v, c) for v, c in terms.items() if v != "_c"]
                vals = set()
                for combo in itertools.product(*[range(*ranges[v]) for v, _ in vs]):
                    vals.add(sum(c * x for (v, c), x in zip(vs, combo)) + terms.get("_c", 0))
                dims.append(sorted(vals))
        return set(itertools.product(*dims))

    def coord_of(self, proj, point):
        if isinstance(proj, list):
            return tuple(point[rv] for rv in proj)
        return tuple(sum(c * point[v] for v, c in terms.items() if v != "_c") + terms.get("_c", 0) for terms in proj.values())

    # ------------------------------------------------------------------ data movement
    def transfer_down(self, parent, child_comp, child_is_storage, tensor, coords, child_holder=None):
        """parent -> child fill of `coords` (through any Tolls in between)."""
        if not coords:
            return
        is_out = tensor in self.out_tensors
        for c in coords:
            fresh = is_out and c not in self.written[tensor]
            # walk up through tolls to the first real memory
            p = parent
            tolls = []
            while p is not None and p.is_toll:
                tolls.append(p)
                p = p.parent
            src = p
            skip_read = fresh and src is not None and self.skip(src.comp) and self.skip(child_comp)
            if src is not None and not skip_read:
                self.counts[(src.comp, tensor, "read")] += 1
            if src is not None:
                # a Toll is a component serving the same requester: its action for a never-written output value
                # is omitted iff its own flag (default True) and the requester's flag are set
                for tl in tolls:
                    if self.toll_dir(tl, tensor) in ("down", "up_and_down") and \
                            not (fresh and self.skip(tl.comp) and self.skip(child_comp)):
                        self.counts[(tl.comp, tensor, "read")] += 1
            if child_is_storage and not (fresh and self.skip(child_comp)):
                self.counts[(child_comp, tensor, "write")] += 1

    def transfer_up(self, parent, child_comp, child_is_storage, tensor, coords):
        """child -> parent write-back of `coords`."""
        if not coords:
            return
        n = len(coords)
        p = parent
        tolls = []
        while p is not None and p.is_toll:
            tolls.append(p)
            p = p.parent
        if child_is_storage:
            self.counts[(child_comp, tensor, "read")] += n
        if p is not None:
            self.counts[(p.comp, tensor, "write")] += n
            for tl in tolls:
                if self.toll_dir(tl, tensor) in ("up", "up_and_down"):
                    self.counts[(tl.comp, tensor, "read")] += n
            p.dirty |= coords

    def toll_dir(self, holder, tensor):
        d = self.arch.get(holder.comp, {}).get("direction", "down")
        if isinstance(d, dict):
            return d.get(tensor, "down")
        return d

    def flush(self, h):
        """Write back everything dirty below and in h, then drop its content."""
        for ch in h.children:
            self.flush(ch)
        if h.held is None:
            return
        if h.is_toll:
            h.held, h.dirty = None, set()
            return
        if h.dirty and h.parent is not None:
            self.transfer_up(h.parent, h.comp, True, h.tensor, h.dirty)
        h.held, h.dirty = None, set()

    def enter(self, h, tile):
        if h.is_toll:
            h.held = tile
            return
        # Every entry refetches: a storage node below a loop reloads its tile whenever an enclosing loop
        # advances, even when the tile is the same (reuse is expressed by placing the node above the loop).
        if h.held is not None:
            self.flush(h)
        new = tile
        if h.parent is not None:
            self.transfer_down(h.parent, h.comp, True, h.tensor, new)
        h.held = set(tile)
        h.dirty = set()

    # ------------------------------------------------------------------ execution
    def run(self, tree):
        self._ids = itertools.count()
        self.roots = []
        plan = self._prepare(tree, {})
        ranges = {rv: (0, b) for rv, b in self.w["ranks"].items()}
        self._walk(plan, 0, ranges)
        for h in self.roots:
            self.flush(h)
        return self

    def _prepare(self, nodes, active):
        """Attach static Holder objects to storage nodes (parent = nearest enclosing holder of the tensor)."""
        out = []
        active = dict(active)
        for n in nodes:
            if n["t"] == "S":
                hs = []
                is_toll = self.arch.get(n["comp"], {}).get("kind") == "Toll"
                for t in n["tensors"]:
                    h = Holder(n["comp"], t, next(self._ids), is_toll)
                    h.parent = active.get(t)
                    if h.parent is not None:
                        h.parent.children.append(h)
                    else:
                        self.roots.append(h)
                    active[t] = h
                    hs.append(h)
                out.append({"t": "S", "holders": hs, "comp": n["comp"]})
            elif n["t"] == "Q":
                out.append({"t": "Q", "branches": [self._prepare(b, active) for b in n["branches"]]})
            elif n["t"] == "C":
                out.append({"t": "C", "einsum": n["einsum"], "comp": n["comp"], "active": dict(active)})
            else:
                out.append(dict(n))
        return out

    def _einsum_below(self, plan, i):
        for n in plan[i:]:
            if n["t"] == "C":
                return n["einsum"]
            if n["t"] == "Q":
                return None
        return None

    def _walk(self, plan, i, ranges):
        if i >= len(plan):
            return
        n = plan[i]
        if n["t"] in ("T", "P"):
            lo, hi = ranges[n["rv"]]
            t = int(n["tile"])
            x = lo
            while x < hi:
                r2 = dict(ranges)
                r2[n["rv"]] = (x, min(x + t, hi))
                self._walk(plan, i + 1, r2)
                x += t
        elif n["t"] == "S":
            for h in n["holders"]:
                pr = self._proj_for(h.tensor, plan, i)
                self.enter(h, self.tile_of(pr, ranges))
            self._walk(plan, i + 1, ranges)
        elif n["t"] == "Q":
            for b in n["branches"]:
                self._walk(b, 0, ranges)
        elif n["t"] == "C":
            e = self.einsums[n["einsum"]]
            rvs = sorted({v for t in e["tensors"] for v in (t["proj"] if isinstance(t["proj"], list) else
                                                            [x for terms in t["proj"].values() for x in terms if x != "_c"])})
            for combo in itertools.product(*[range(*ranges[v]) for v in rvs]):
                point = dict(zip(rvs, combo))
                self.step += 1
                self.computes[n["einsum"]] += 1
                for t in e["tensors"]:
                    h = n["active"].get(t["name"])
                    if h is None:
                        raise ValueError(f"tensor {t['name']} has no holder above compute {n['einsum']}")
                    c = self.coord_of(t["proj"], point)
                    if not t["out"]:
                        self.transfer_down(h, n["comp"], False, t["name"], [c])
                    else:
                        self.transfer_down(h, n["comp"], False, t["name"], [c])   # read the partial sum (skipped when fresh)
                        self.written[t["name"]].add(c)
                        self.transfer_up(h, n["comp"], False, t["name"], {c})
            self._walk(plan, i + 1, ranges)

    def _proj_for(self, tensor, plan, i):
        """Projection of `tensor` for the sub-nest below position i (all Einsums below that use it agree
        on the ranks; take the first one found)."""
        for e in self._einsums_below(plan[i:]):
            for t in self.einsums[e]["tensors"]:
                if t["name"] == tensor:
                    return t["proj"]
        raise KeyError(tensor)

    def _einsums_below(self, plan):
        for n in plan:
            if n["t"] == "C":
                yield n["einsum"]
            elif n["t"] == "Q":
                for b in n["branches"]:
                    yield from self._einsums_below(b)
