"""Time-stepped occupancy simulation of a LoopTree (reference model; no accelforge code).

Every entry into a storage node creates a tile instance.  An instance is live from the first
to the last compute step that touches one of its coordinates.  Three granularities are
recorded in one pass:
  tile : the instance of a non-backing holder is split by the current iteration of the maximal run
         of loops directly below the node that index the tensor directly (the streaming granularity:
         such a loop consumes the tile slice by slice); other tensors' storage nodes in between are
         skipped (they are not loops and cannot change what is live)
  U    : whole tile per entry (upper bracket)
  L    : value-granular first-to-last use (lower bracket)
Peak(memory) = max over compute steps of the summed sizes (in bits) of the live instances.
"""
import itertools
from collections import defaultdict


class H:
    __slots__ = ("comp", "tensor", "nid", "parent", "toll", "entry", "entry_ranges", "low", "low_b", "lower_rvs", "backing")

    def __init__(self, comp, tensor, nid, toll):
        self.comp, self.tensor, self.nid, self.toll = comp, tensor, nid, toll
        self.parent = None
        self.entry = 0
        self.entry_ranges = None
        self.low = {}
        self.low_b = {}
        self.lower_rvs = set()
        self.backing = False


class Occupancy:
    def __init__(self, workload, arch, lower_backing=False):
        self.w = workload
        self.arch = arch            # comp -> {"kind", "bits": {tensor: bits}}
        self.einsums = {e["name"]: e for e in workload["einsums"]}
        self.lower_backing = lower_backing
        self.inst = {"tile": {}, "tile_blocked": {}, "U": {}, "L": {}}
        self.step = 0

    def bits(self, comp, tensor):
        return (self.arch.get(comp, {}).get("bits") or {}).get(tensor, self.w["bits"])

    def direct_rvs(self, tensor):
        out = set()
        for e in self.w["einsums"]:
            for t in e["tensors"]:
                if t["name"] == tensor:
                    if isinstance(t["proj"], list):
                        out |= set(t["proj"])
                    else:
                        for terms in t["proj"].values():
                            vs = [v for v in terms if v != "_c"]
                            if len(vs) == 1 and terms[vs[0]] == 1:
                                out.add(vs[0])
        return out

    def proj_of(self, tensor, einsum=None):
        for e in self.w["einsums"]:
            if einsum is not None and e["name"] != einsum:
                continue
            for t in e["tensors"]:
                if t["name"] == tensor:
                    return t["proj"]
        raise KeyError(tensor)

    # ------------------------------------------------------------------
    def run(self, tree):
        self._ids = itertools.count()
        self._persistent = set()
        plan = self._prepare(tree, {})
        ranges = {rv: (0, b) for rv, b in self.w["ranks"].items()}
        self._walk(plan, 0, ranges)
        # a persistent holder is resident for the whole workload
        for mode in self.inst.values():
            for key, rec in mode.items():
                if key[0] in self._persistent:
                    rec[0], rec[1] = 1, self.step
        return self

    def _prepare(self, nodes, active):
        out = []
        active = dict(active)
        for idx, n in enumerate(nodes):
            if n["t"] == "S":
                hs = []
                toll = bool(n.get("toll")) or self.arch.get(n["comp"], {}).get("kind") == "Toll"
                for t in n["tensors"]:
                    h = H(n["comp"], t, next(self._ids), toll)
                    h.parent = active.get(t)
                    h.backing = h.parent is None or all(self._is_toll_chain(h.parent))
                    active[t] = h
                    hs.append(h)
                    if n.get("persistent"):
                        self._persistent.add(h.nid)
                out.append({"t": "S", "holders": hs})
            elif n["t"] == "Q":
                out.append({"t": "Q", "branches": [self._prepare(b, active) for b in n["branches"]]})
            elif n["t"] == "C":
                out.append({"t": "C", "einsum": n["einsum"], "active": dict(active)})
            else:
                out.append({"t": "T", "rv": n["rv"], "tile": n["tile"], "lowers": [], "lowers_b": []})
        # lowering runs: loops directly below a storage node (skipping other storage nodes) that index the tensor directly
        for i, n in enumerate(out):
            if n["t"] != "S":
                continue
            for h in n["holders"]:
                if h.toll or (h.backing and not self.lower_backing):
                    continue
                direct = self.direct_rvs(h.tensor)
                # a storage node of the SAME tensor below fetches its whole tile at once: lowering stops there.
                # Storage nodes of other tensors are not loops and cannot change what is live: skipped.
                for m in out[i + 1:]:
                    if m["t"] == "S":
                        if any(x.tensor == h.tensor and not x.toll for x in m["holders"]):
                            break
                        continue
                    if m["t"] == "T" and m["rv"] in direct:
                        m["lowers"].append(h)
                        h.lower_rvs.add(m["rv"])
                        continue
                    break
                # emulation used only to attribute a disagreement: lowering blocked by ANY following storage node
                # (a node listing several tensors behaves like consecutive single-tensor nodes in the listed order)
                if h is n["holders"][-1]:
                    for m in out[i + 1:]:
                        if m["t"] == "T" and m["rv"] in direct:
                            m["lowers_b"].append(h)
                            continue
                        break
        return out

    def _is_toll_chain(self, h):
        while h is not None:
            yield h.toll
            h = h.parent

    def _walk(self, plan, i, ranges):
        if i >= len(plan):
            return
        n = plan[i]
        if n["t"] == "T":
            lo, hi = ranges[n["rv"]]
            t = int(n["tile"])
            x = lo
            while x < hi:
                r2 = dict(ranges)
                r2[n["rv"]] = (x, min(x + t, hi))
                for h in n["lowers"]:
                    h.low[n["rv"]] = r2[n["rv"]]
                for h in n["lowers_b"]:
                    h.low_b[n["rv"]] = r2[n["rv"]]
                self._walk(plan, i + 1, r2)
                x += t
        elif n["t"] == "S":
            for h in n["holders"]:
                h.entry += 1
                h.entry_ranges = dict(ranges)
                h.low = {}
                h.low_b = {}
            self._walk(plan, i + 1, ranges)
        elif n["t"] == "Q":
            for b in n["branches"]:
                self._walk(b, 0, ranges)
        elif n["t"] == "C":
            e = self.einsums[n["einsum"]]
            rvs = sorted({v for t in e["tensors"] for v in (t["proj"] if isinstance(t["proj"], list) else
                                                            [x for terms in t["proj"].values() for x in terms if x != "_c"])})
            for combo in itertools.product(*[range(*ranges[v]) for v in rvs]):
                point = dict(zip(rvs, combo))
                self.step += 1
                for t in e["tensors"]:
                    c = self._coord(t["proj"], point)
                    h = n["active"].get(t["name"])
                    while h is not None:
                        if not h.toll:
                            self._touch(h, t, c)
                        h = h.parent
            self._walk(plan, i + 1, ranges)

    def _coord(self, proj, point):
        if isinstance(proj, list):
            return tuple(point[rv] for rv in proj)
        return tuple(sum(k * point[v] for v, k in terms.items() if v != "_c") + terms.get("_c", 0) for terms in proj.values())

    def _size(self, proj, ranges):
        n = 1
        if isinstance(proj, list):
            for rv in proj:
                lo, hi = ranges[rv]
                n *= hi - lo
            return n
        for terms in proj.values():
            vs = [(v, k) for v, k in terms.items() if v != "_c"]
            vals = {sum(k * x for (v, k), x in zip(vs, combo)) for combo in itertools.product(*[range(*ranges[v]) for v, _ in vs])}
            n *= len(vals)
        return n

    def _touch(self, h, t, c):
        s = self.step
        bits = self.bits(h.comp, h.tensor)
        for mode, key, size in (
                ("tile", (h.nid, h.entry, tuple(sorted(h.low.items()))), None),
                ("tile_blocked", (h.nid, h.entry, tuple(sorted(h.low_b.items()))), None),
                ("U", (h.nid, h.entry), None),
                ("L", (h.nid, h.entry, c), 1)):
            rec = self.inst[mode].get(key)
            if rec is None:
                if size is None:
                    r = dict(h.entry_ranges)
                    if mode == "tile":
                        r.update(h.low)
                    elif mode == "tile_blocked":
                        r.update(h.low_b)
                    size = self._size(t["proj"], r)
                self.inst[mode][key] = [s, s, size * bits, h.comp]
            else:
                rec[1] = s

    def peaks(self, mode="tile"):
        ev = defaultdict(list)
        for first, last, size, comp in self.inst[mode].values():
            ev[comp].append((first, size))
            ev[comp].append((last + 1, -size))
        out = {}
        for comp, lst in ev.items():
            lst.sort(key=lambda x: (x[0], x[1]))
            cur = peak = 0
            for _, d in lst:
                cur += d
                peak = max(peak, cur)
            out[comp] = peak
        return out
