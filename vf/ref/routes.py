"""Explicit route simulation for data moved across a spatial fanout from a non-distributed
source (no accelforge code). Every link has its own traffic counter."""
from collections import Counter


def mesh_line(n, stride, volume, multicast):
    """Destinations at 0, s, 2s, ... (n-1)s on a line, source at 0; link p joins p and p+1."""
    link = Counter()
    hops = 0
    if multicast:
        # one copy travels link by link to the farthest destination, dropped off on the way
        far = (n - 1) * stride
        for _unit in range(volume):
            for p in range(far):
                link[p] += 1
                hops += 1
    else:
        for i in range(n):           # destination i has its own `volume` values
            for _unit in range(volume):
                for p in range(i * stride):
                    link[p] += 1
                    hops += 1
    return hops, (max(link.values()) if link else 0)


def all_to_all(n, stride, volume, multicast):
    """Star through a switch: the source's uplink and one downlink per other instance; a
    delivery (one switch traversal) is one hop. The source instance keeps its own data."""
    up, down = 0, Counter()
    hops = 0
    for _unit in range(volume):
        if multicast:
            if n > 1:
                up += 1              # the switch replicates
            for d in range(1, n):
                down[d] += 1
                hops += 1
        else:
            for d in range(1, n):    # distinct message per destination
                up += 1
                down[d] += 1
                hops += 1
    return hops, max([up] + list(down.values()))
