"""One mapper run in a fresh interpreter, result written as a JSON record.
usage: python -m vf.maprun <in.json> <out.json>
in.json: {"desc":..., "metrics":..., "n_jobs": 1, "cache_dir": null, "eval_in_detail": true}
The environment (PYTHONHASHSEED, ACCELFORGE_VERIF_SCHEDULE_*) is set by the caller."""
import json
import os
import sys
import time


def _entries(cache_dir):
    """Number of stored results in a joblib.Memory directory."""
    n = 0
    for _root, _dirs, files in os.walk(cache_dir):
        n += sum(1 for f in files if f.startswith("output.pkl"))
    return n


def main():
    from vf import setup_env, WORK
    setup_env()
    wd = os.path.join(WORK, f"cwd-{os.getpid()}")
    os.makedirs(wd, exist_ok=True)
    os.chdir(wd)
    args = json.load(open(sys.argv[1]))
    from vf import harness as H
    t0 = time.time()
    out = {"ok": True}
    try:
        kw = {}
        if args.get("cache_dir"):
            kw["cache_dir"] = args["cache_dir"]
            out["cache_entries_before"] = _entries(args["cache_dir"])
        if args.get("spec_path"):
            kw["spec_path"] = args["spec_path"]
        if args.get("einsum_names"):
            kw["einsum_names"] = args["einsum_names"]
        res = H.run_mapper(args["desc"], args["metrics"], eval_in_detail=args.get("eval_in_detail", True),
                           n_jobs=args.get("n_jobs", 1), **kw)
        rows = H.result_rows(res)
        out["rows"] = [{"energy": r["energy"], "latency": r["latency"], "edp": r["edp"], "usage": r["usage"],
                        "tree": H.tree_key(r["tree"])} for r in rows]
    except H.NoMapping as e:
        out["rows"] = None
        out["no_mapping"] = str(e)[:200]
    except Exception as e:
        import traceback
        out = {"ok": False, "error": f"{type(e).__name__}: {str(e)[:400]}", "traceback": traceback.format_exc()[-2000:]}
    if args.get("cache_dir"):
        out["cache_entries_after"] = _entries(args["cache_dir"])
    out["wall_s"] = round(time.time() - t0, 2)
    out["hashseed"] = os.environ.get("PYTHONHASHSEED")
    with open(sys.argv[2], "w") as f:
        json.dump(out, f)
    import shutil
    os.chdir(WORK)
    shutil.rmtree(wd, ignore_errors=True)


if __name__ == "__main__":
    main()
