"""C21 - spec expressions evaluate in dependency order with correct scoping."""
import json
import random

ID = "C21"
LEVEL = "exploration"
CHUNK = 4
CASE_TIMEOUT = 900
REQUIRED_COUNTERS = ["acyclic_graphs_checked", "cyclic_graphs_checked"]
RULE = ("random definition graphs (<= 12 integer definitions over + - * // min max, names that are prefixes/suffixes "
        "of each other, shuffled key order) split over spec.variables / arch.variables / a component's "
        "extra_attributes_for_component_model with deliberate shadowing; acyclic graphs: every evaluated value "
        "(read back from Spec._spec_eval_expressions and from calculate_component_costs) equals an independent "
        "topological evaluation with innermost-scope lookup; graphs with a cycle (length >= 2, or a self loop with "
        "no outer binding) must raise EvaluationError; non-trivial = >= 2 definitions depend on other definitions "
        "or a cycle is present; distinct = the definition table")
ASSUMPTIONS = ["a self reference that has an outer binding ('a: a + 1' inside, 'a' outside) is generated but not judged",
               "names avoid python keywords, math function names and component field names"]
TECHNIQUE = "runtime monitoring: independent DAG evaluator vs the real expression evaluation on seeded random definition graphs"

NAMES = ["qa", "qa_1", "qa1", "qab", "qb", "qb_", "q_b", "qx", "qx2", "qxx", "qval", "qval_2", "qv", "q", "qq", "aq", "a_q"]
SCOPES = ["spec", "arch", "comp"]
VISIBLE = {"spec": ["spec"], "arch": ["arch", "spec"], "comp": ["comp", "arch", "spec"]}


def gen_cases(tier, seed):
    rnd = random.Random(f"C21-{seed}")
    n, per = (16, 60) if tier == "quick" else (128, 200)
    return [{"class": "cyclic" if i % 4 == 3 else "acyclic", "seed": rnd.randrange(2**31), "count": per} for i in range(n)]


def gen_expr(rnd, refs, depth=0):
    if depth >= 2 or (depth > 0 and rnd.random() < 0.4) or not refs and rnd.random() < 0.5:
        if refs and rnd.random() < 0.75:
            return rnd.choice(refs)
        return str(rnd.randint(0, 9))
    op = rnd.choice(["+", "-", "*", "//", "min", "max", "paren"])
    a = gen_expr(rnd, refs, depth + 1)
    b = gen_expr(rnd, refs, depth + 1)
    sp = rnd.choice(["", " "])
    if op in ("min", "max"):
        return f"{op}({a},{sp}{b})"
    if op == "//":
        return f"({a}){sp}//{sp}{rnd.choice([2, 3, 5])}"
    if op == "paren":
        return f"({a}{sp}+{sp}{b})"
    return f"{a}{sp}{op}{sp}{b}"


def gen_graph(rnd, cyclic):
    """defs: list of (scope, name, expr). Built so that, before cycle injection, it is acyclic:
    a definition only references (scope-visible) names created earlier."""
    n = rnd.randint(2, 12)
    defs = []
    for _ in range(n):
        scope = rnd.choice(SCOPES)
        taken = {nm for sc, nm, _ in defs if sc == scope}
        free = [x for x in NAMES if x not in taken]
        if not free:
            continue
        # shadowing on purpose: prefer a name already defined in an outer scope now and then
        outer_names = [nm for sc, nm, _ in defs if sc in VISIBLE[scope][1:] and nm not in taken]
        name = rnd.choice(outer_names) if outer_names and rnd.random() < 0.35 else rnd.choice(free)
        refs = sorted({nm for sc, nm, _ in defs if sc in VISIBLE[scope]} - {name})
        expr = gen_expr(rnd, refs) if rnd.random() < 0.85 else str(rnd.randint(0, 99))
        defs.append((scope, name, expr))
    kind = "acyclic"
    if cyclic:
        scope = rnd.choice(SCOPES)
        mine = [i for i, d in enumerate(defs) if d[0] == scope]
        if len(mine) >= 2 and rnd.random() < 0.8:
            k = rnd.randint(2, min(4, len(mine)))
            ring = rnd.sample(mine, k)
            for a, b in zip(ring, ring[1:] + ring[:1]):
                sc, nm, ex = defs[a]
                defs[a] = (sc, nm, f"({ex}) + {defs[b][1]}")
            kind = f"cycle{k}"
        else:
            # self loop without any outer binding
            outer = {nm for sc, nm, _ in defs}
            free = [x for x in NAMES if x not in outer]
            if free:
                defs.append((scope, free[0], f"{free[0]} + 1"))
                kind = "self_loop"
    # the same name may appear once per scope only
    seen, out = set(), []
    for d in defs:
        if (d[0], d[1]) not in seen:
            seen.add((d[0], d[1]))
            out.append(d)
    rnd.shuffle(out)
    return out, kind


def oracle(defs):
    """(values per scope, has_cycle). Innermost-visible-scope lookup, memoised DFS."""
    table = {(sc, nm): ex for sc, nm, ex in defs}
    import re
    val, state = {}, {}

    def resolve(scope, name):
        for sc in VISIBLE[scope]:
            if (sc, name) in table:
                return (sc, name)
        return None

    class Cycle(Exception):
        pass

    def ev(key):
        if key in val:
            return val[key]
        if state.get(key) == 1:
            raise Cycle()
        state[key] = 1
        sc, nm = key
        ex = table[key]
        env = {}
        for ident in set(re.findall(r"[A-Za-z_][A-Za-z_0-9]*", ex)):
            if ident in ("min", "max"):
                continue
            k2 = resolve(sc, ident)
            if k2 == key:
                # self reference: bind to an outer definition if there is one
                k2 = None
                for sc2 in VISIBLE[sc][1:]:
                    if (sc2, ident) in table:
                        k2 = (sc2, ident)
                        break
                if k2 is None:
                    raise Cycle()
            if k2 is not None:
                env[ident] = ev(k2)
        v = eval(ex, {"min": min, "max": max, "__builtins__": {}}, env)
        state[key] = 2
        val[key] = v
        return v

    try:
        for key in table:
            ev(key)
    except Cycle:
        return None, True
    return val, False


def has_outer_self_ref(defs):
    import re
    table = {(sc, nm) for sc, nm, _ in defs}
    for sc, nm, ex in defs:
        if re.search(r"\b" + re.escape(nm) + r"\b", ex) and any((s2, nm) in table for s2 in VISIBLE[sc][1:]):
            return True
    return False


def build_spec(defs):
    by = {s: {nm: (int(ex) if ex.lstrip("-").isdigit() else ex) for sc, nm, ex in defs if sc == s} for s in SCOPES}
    mem = {"!tag": "Memory", "name": "M0", "size": "inf", "area": 1, "leak_power": 0,
           "actions": [{"name": "read", "energy": 1, "throughput": 1}, {"name": "write", "energy": 1, "throughput": 1}]}
    if by["comp"]:
        mem["extra_attributes_for_component_model"] = by["comp"]
    arch = {"nodes": [mem, {"!tag": "Compute", "name": "MAC", "area": 1, "leak_power": 0,
                            "actions": [{"name": "compute", "energy": 1, "throughput": 1}]}]}
    if by["arch"]:
        arch["variables"] = by["arch"]
    d = {"arch": arch}
    if by["spec"]:
        d["variables"] = by["spec"]
    return d


def read_back(ev):
    out = {}
    for k, v in dict(ev.variables).items():
        out[("spec", k)] = v
    for k, v in dict(ev.arch.variables).items():
        out[("arch", k)] = v
    for k, v in dict(ev.arch["M0"].extra_attributes_for_component_model).items():
        out[("comp", k)] = v
    return out


def check_graph(defs, counters):
    from accelforge.util.exceptions import EvaluationError
    from .. import yamlgen

    exp, cyc = oracle(defs)
    if not cyc and has_outer_self_ref(defs):
        counters["not_judged_self_ref_with_outer_binding"] = counters.get("not_judged_self_ref_with_outer_binding", 0) + 1
        return []
    viol = []
    for path in ("eval_expressions", "calculate_component_costs"):
        spec = yamlgen.load_spec(build_spec(defs))
        try:
            ev = spec._spec_eval_expressions() if path == "eval_expressions" else spec.calculate_component_costs()
            got, err = read_back(ev), None
        except EvaluationError as e:
            got, err = None, e
        except RecursionError as e:
            got, err = None, e
        key = ("cyclic" if cyc else "acyclic") + "_graphs_checked"
        counters[key] = counters.get(key, 0) + 1
        if cyc:
            if err is None:
                viol.append({"sig": "cycle_yields_value", "witness": {"path": path, "defs": defs,
                                                                     "values": {f"{a}.{b}": v for (a, b), v in got.items()}}})
            elif not isinstance(err, EvaluationError):
                viol.append({"sig": f"cycle_raises_{type(err).__name__}", "witness": {"path": path, "defs": defs}})
        else:
            if err is not None:
                viol.append({"sig": "acyclic_raises", "witness": {"path": path, "defs": defs, "error": str(err)[:400]}})
            else:
                bad = {f"{a}.{b}": [got.get((a, b)), v] for (a, b), v in exp.items() if got.get((a, b)) != v}
                if bad:
                    shadow = any(sum(1 for sc, nm, _ in defs if nm == n) > 1 for _, n, _ in defs)
                    viol.append({"sig": "wrong_value" + (":with_shadowing" if shadow else ""),
                                 "witness": {"path": path, "defs": defs, "got_vs_expected": bad}})
    return viol


def run_case(case):
    counters, viol, nontriv, sample = {}, [], [], None
    if "defs" in case:
        v = check_graph([tuple(d) for d in case["defs"]], counters)
        return {"status": "violation" if v else "ok", "violations": v, "counters": counters, "nontrivial": ["explicit"]}
    rnd = random.Random(case["seed"])
    per_sig = {}
    for _ in range(case["count"]):
        defs, kind = gen_graph(rnd, case["class"] == "cyclic")
        v = check_graph(defs, counters)
        counters["kind:" + kind] = counters.get("kind:" + kind, 0) + 1
        for x in v:
            per_sig[x["sig"]] = per_sig.get(x["sig"], 0) + 1
            if per_sig[x["sig"]] <= 2:
                x["case"] = {"class": case["class"], "defs": defs}
                viol.append(x)
        ndep = sum(1 for _, _, ex in defs if any(c.isalpha() for c in ex.replace("min", "").replace("max", "")))
        if ndep >= 2 or kind != "acyclic":
            nontriv.append(json.dumps(sorted(defs)))
            if sample is None and 3 <= len(defs) <= 7:
                sample = {"definitions": defs, "kind": kind}
    return {"status": "violation" if viol else "ok", "violations": viol, "nontrivial": nontriv,
            "counters": counters, "sample": sample}
