"""C25 - architecture flattening yields exactly the root-to-compute path."""
import json
import random

from ..gen import archtree as at

ID = "C25"
LEVEL = "exploration"
CHUNK = 6
CASE_TIMEOUT = 600
REQUIRED_COUNTERS = ["computes_queried"]
RULE = ("random architecture trees (depth <= 4; Memory, Toll, Container, Compute, Fork, nested Hierarchical; 1-8 "
        "computes; random fanouts) built through Spec.from_yaml; every compute node queried through "
        "Spec._get_flattened_architecture and compared with a recursive walker over the generator-side tree; "
        "non-trivial = the tree has a Fork or a nested Hierarchical or >= 2 computes; distinct = structural shape")
ASSUMPTIONS = ["Array nodes are outside the property's quantifier and are not generated",
               "every Fork ends with a Compute as the documentation prescribes; the top level ends with a Compute"]
TECHNIQUE = "runtime monitoring: reference walker over generator-side trees vs the real flattening on seeded random architectures"


def gen_cases(tier, seed):
    rnd = random.Random(f"C25-{seed}")
    n, per = (24, 25) if tier == "quick" else (160, 60)
    return [{"class": "shared_dims" if i % 4 == 3 else "unique_dims", "seed": rnd.randrange(2**31), "count": per}
            for i in range(n)]


def check_tree(tree, counters):
    from .. import yamlgen
    spec = yamlgen.load_spec({"arch": {"nodes": at.to_yaml_nodes(tree)}})
    spec = spec._spec_eval_expressions()
    viol = []
    computes = [l["name"] for l in at.all_leaves(tree) if l["kind"] == "Compute"]
    all_paths = None
    for c in computes:
        exp = [n["name"] for n in at.path_to(tree, c)[0]]
        try:
            got = [n.name for n in spec._get_flattened_architecture(c)]
        except Exception as e:
            viol.append({"sig": f"exception:{type(e).__name__}", "witness": {"compute": c, "error": str(e)[:300]}})
            continue
        counters["computes_queried"] = counters.get("computes_queried", 0) + 1
        if got != exp:
            extra = [x for x in got if x not in exp]
            miss = [x for x in exp if x not in got]
            kind = "extra_node" if extra else ("missing_node" if miss else "order")
            viol.append({"sig": f"flatten_path_wrong:{kind}", "witness": {"compute": c, "got": got, "expected": exp}})
    try:
        all_paths = [[n.name for n in f] for f in spec._get_flattened_architecture()]
        counters["all_paths_queried"] = counters.get("all_paths_queried", 0) + 1
        exp_all = [[n["name"] for n in at.path_to(tree, c)[0]] for c in computes]
        if sorted(all_paths) != sorted(exp_all):
            viol.append({"sig": "flatten_all_paths_wrong", "witness": {"got": all_paths, "expected": exp_all}})
    except Exception as e:
        viol.append({"sig": f"exception:{type(e).__name__}", "witness": {"compute": None, "error": str(e)[:300]}})
    return viol


def run_case(case):
    counters, viol, nontriv, sample = {}, [], [], None
    if "tree" in case:
        v = check_tree(case["tree"], counters)
        return {"status": "violation" if v else "ok", "violations": v, "counters": counters, "nontrivial": ["explicit"]}
    rnd = random.Random(case["seed"])
    per_sig = {}
    for _ in range(case["count"]):
        tree = at.gen_tree(rnd, max_depth=3, shared_dims=case["class"] == "shared_dims")
        v = check_tree(tree, counters)
        for x in v:
            per_sig[x["sig"]] = per_sig.get(x["sig"], 0) + 1
            if per_sig[x["sig"]] <= 2:
                x["case"] = {"class": case["class"], "tree": tree}
                viol.append(x)
        sh = json.dumps(at.shape(tree))
        ncomp = sum(1 for l in at.all_leaves(tree) if l["kind"] == "Compute")
        if "F" in sh or '"H"' in sh or ncomp >= 2:
            nontriv.append(sh)
            if sample is None and "F" in sh and len(sh) < 400:
                sample = {"tree_shape": at.shape(tree),
                          "paths": {c["name"]: [n["name"] for n in at.path_to(tree, c["name"])[0]]
                                    for c in at.all_leaves(tree) if c["kind"] == "Compute"}}
    return {"status": "violation" if viol else "ok", "violations": viol, "nontrivial": nontriv,
            "counters": counters, "sample": sample}
