"""C27 - recomputing component costs on a costed spec changes nothing."""
import json
import random

ID = "C27"
LEVEL = "exploration"
CHUNK = 4
CASE_TIMEOUT = 600
REQUIRED_COUNTERS = ["histories", "quantities_compared"]
RULE = ("random small architectures (2-4 components, optional container fanout) with random area / leak / per-action "
        "energy / throughput, random scale factors (area_scale, leak_power_scale, energy_scale, throughput_scale on the "
        "component and on actions) and n_parallel_instances; call histories of length 1-3 over calculate_component_costs "
        "with every flag subset; after each call every quantity computed so far is compared with a single full call on a "
        "fresh spec; non-trivial = some scale factor or n_parallel_instances != 1 and history length >= 2; "
        "distinct = (arch parameters, history)")
ASSUMPTIONS = ["explicit values only (no hwcomponents model lookups)"]
TECHNIQUE = "runtime monitoring: call-history driver with a fresh-spec single-call reference"

FLAGS = ["area", "energy", "throughput", "leak"]


def gen_cases(tier, seed):
    rnd = random.Random(f"C27-{seed}")
    n, per = (16, 25) if tier == "quick" else (120, 60)
    return [{"class": "history", "seed": rnd.randrange(2**31), "count": per} for _ in range(n)]


def gen_arch(rnd):
    def sc():
        return rnd.choice([1, 1, 2, 3, 0.5, 4])
    nodes = []
    nm = rnd.randint(1, 3)
    for i in range(nm):
        d = {"!tag": "Memory", "name": f"M{i}", "size": "inf", "area": rnd.randint(1, 20), "leak_power": rnd.randint(1, 9),
             "area_scale": sc(), "leak_power_scale": sc(), "energy_scale": sc(), "throughput_scale": sc(),
             "n_parallel_instances": rnd.choice([1, 1, 2, 3]),
             "actions": [{"name": "read", "energy": rnd.randint(1, 9), "throughput": rnd.choice([1, 2, 8]),
                          "energy_scale": sc(), "throughput_scale": sc()},
                         {"name": "write", "energy": rnd.randint(1, 9), "throughput": rnd.choice([1, 2, 8])}]}
        if rnd.random() < 0.3:
            d["spatial"] = [{"name": f"s{i}", "fanout": rnd.choice([2, 3])}]
        nodes.append(d)
        if rnd.random() < 0.3:
            nodes.append({"!tag": "Container", "name": f"K{i}", "spatial": [{"name": f"k{i}", "fanout": rnd.choice([2, 4])}]})
    nodes.append({"!tag": "Compute", "name": "MAC", "area": rnd.randint(1, 5), "leak_power": rnd.randint(0, 3),
                  "area_scale": sc(), "leak_power_scale": sc(), "energy_scale": sc(), "throughput_scale": sc(),
                  "n_parallel_instances": rnd.choice([1, 2]),
                  "actions": [{"name": "compute", "energy": rnd.randint(1, 9), "throughput": rnd.choice([1, 4])}]})
    return {"arch": {"nodes": nodes}}


def snapshot(spec):
    from accelforge.frontend.arch import Component
    out = {}
    for c in spec.arch.get_nodes_of_type(Component):
        out[c.name] = {"area": c.area, "total_area": c.total_area, "leak": c.leak_power, "total_leak": c.total_leak_power,
                       "energy": {a.name: a.energy for a in c.actions}, "throughput": {a.name: a.throughput for a in c.actions}}
    return out


QUANT = {"area": ["area", "total_area"], "leak": ["leak", "total_leak"], "energy": ["energy"], "throughput": ["throughput"]}


def _eq(a, b):
    if isinstance(a, dict):
        return all(_eq(a[k], b[k]) for k in a)
    if a is None or b is None:
        return a is b
    return abs(float(a) - float(b)) <= 1e-9 * max(1.0, abs(float(a)))


def check_history(arch, history, counters):
    from .. import yamlgen
    ref = snapshot(yamlgen.load_spec(arch).calculate_component_costs())
    spec = yamlgen.load_spec(arch)
    computed, first_at = set(), {}
    viol = []
    for step, flags in enumerate(history):
        spec = spec.calculate_component_costs(**{f: (f in flags) for f in FLAGS})
        cur = snapshot(spec)
        for f in flags:
            first_at.setdefault(f, step)
        computed |= set(flags)
        for f in sorted(computed):
            for comp, vals in cur.items():
                for q in QUANT[f]:
                    counters["quantities_compared"] = counters.get("quantities_compared", 0) + 1
                    if not _eq(ref[comp][q], vals[q]):
                        sig = "scale_reapplied" if first_at[f] < step else "first_computation_differs_from_single_call"
                        viol.append({"sig": sig, "witness": {"component": comp, "quantity": q, "step": step,
                                                              "history": history, "single_full_call": ref[comp][q],
                                                              "after_history": vals[q]}})
                        return viol
    return viol


def run_case(case):
    counters, viol, nontriv, sample = {}, [], [], None
    if "arch" in case:
        v = check_history(case["arch"], case["history"], counters)
        return {"status": "violation" if v else "ok", "violations": v, "counters": counters, "nontrivial": ["explicit"]}
    rnd = random.Random(case["seed"])
    per_sig = {}
    for _ in range(case["count"]):
        arch = gen_arch(rnd)
        k = rnd.choice([1, 2, 2, 3, 3])
        history = []
        for i in range(k):
            if rnd.random() < 0.5:
                history.append(list(FLAGS))
            else:
                history.append(sorted(rnd.sample(FLAGS, rnd.randint(1, 3))))
        v = check_history(arch, history, counters)
        counters["histories"] = counters.get("histories", 0) + 1
        for x in v:
            per_sig[x["sig"]] = per_sig.get(x["sig"], 0) + 1
            if per_sig[x["sig"]] <= 2:
                x["case"] = {"class": "history", "arch": arch, "history": history}
                viol.append(x)
        scaled = any(n.get(s, 1) != 1 for n in arch["arch"]["nodes"]
                     for s in ("area_scale", "leak_power_scale", "energy_scale", "throughput_scale", "n_parallel_instances"))
        if scaled and k >= 2:
            nontriv.append(json.dumps([arch, history], sort_keys=True)[:2000])
            if sample is None:
                sample = {"arch": arch, "history": history}
    for s, c in per_sig.items():
        counters["violating_histories:" + s] = c
    return {"status": "violation" if viol else "ok", "violations": viol, "nontrivial": nontriv,
            "counters": counters, "sample": sample}
