"""C23 - concise Einsum notation is equivalent to the verbose form."""
import json
import random

ID = "C23"
LEVEL = "exploration"
CHUNK = 4
CASE_TIMEOUT = 900
REQUIRED_COUNTERS = ["equivalences_checked", "malformed_checked", "merges_checked"]
RULE = ("random abstract Einsums (1-4 input tensors, 1-4 ranks each, implied 'm' and explicit 'M: m+n' projections, "
        "random whitespace incl. none/tabs) rendered to the concise string and to the verbose dict; Workload objects "
        "parsed from both are compared on tensor names, projection dictionaries and output flags; the same with extra "
        "attributes merged through {einsum: ..., tensor_accesses: [...]}; plus malformed strings from classes the "
        "grammar unambiguously excludes, which must raise. non-trivial = >= 2 tensors with >= 1 explicit projection or "
        ">= 2 ranks; distinct = the concise string")
ASSUMPTIONS = ["tokens between tensor accesses (operators) are not judged: the documentation fixes no operator set",
               "a 0-rank tensor has no concise spelling (the parser documents 'Projection cannot be empty'); generated, recorded, not judged",
               "tensor names within one Einsum are distinct"]
TECHNIQUE = "runtime monitoring: dual rendering of generator-side Einsums, comparison of the parsed objects; malformed-class fuzzing"

RVS = ["m", "n", "k", "p", "q", "h", "w", "c", "r_1", "kk"]
TENSORS = ["A", "B", "W", "In", "x_t", "Q1", "Kt", "V", "Out", "Z", "y"]


def gen_cases(tier, seed):
    rnd = random.Random(f"C23-{seed}")
    n, per = (16, 120) if tier == "quick" else (128, 300)
    return [{"class": "einsum", "seed": rnd.randrange(2**31), "count": per} for _ in range(n)]


def gen_einsum(rnd):
    nin = rnd.randint(1, 4)
    names = rnd.sample(TENSORS, nin + 1)
    tensors = []
    for i, nm in enumerate(names):
        nr = rnd.randint(1, 4)
        ranks, used = [], set()
        for _ in range(nr):
            if rnd.random() < 0.65:
                rv = rnd.choice(RVS)
                rk = rv.upper()
                if rk in used:
                    continue
                used.add(rk)
                ranks.append({"rank": rk, "expr": rv, "implied": True})
            else:
                a, b = rnd.sample(RVS, 2)
                expr = rnd.choice([f"{a}+{b}", f"2*{a}+{b}", f"{a}", f"{a}+1", f"{a}-{b}", f"3*{a}"])
                rk = rnd.choice(["P", "Q", "H", "W", "R", "X0", "Y_1"])
                if rk in used:
                    continue
                used.add(rk)
                ranks.append({"rank": rk, "expr": expr, "implied": False})
        if not ranks:
            ranks = [{"rank": "M", "expr": "m", "implied": True}]
        tensors.append({"name": nm, "ranks": ranks, "output": i == nin})
    return {"tensors": tensors}


def ws(rnd):
    return rnd.choice(["", "", " ", "  ", "\t"])


def concise(e, rnd):
    def acc(t):
        parts = []
        for r in t["ranks"]:
            if r["implied"]:
                parts.append(ws(rnd) + r["expr"] + ws(rnd))
            else:
                parts.append(ws(rnd) + r["rank"] + ws(rnd) + ":" + ws(rnd) + r["expr"] + ws(rnd))
        return t["name"] + ws(rnd) + "[" + ",".join(parts) + "]"
    out = [t for t in e["tensors"] if t["output"]][0]
    ins = [t for t in e["tensors"] if not t["output"]]
    return ws(rnd) + acc(out) + ws(rnd) + "=" + ws(rnd) + (ws(rnd) + "*" + ws(rnd)).join(acc(t) for t in ins) + ws(rnd)


def verbose(e):
    out = [t for t in e["tensors"] if t["output"]][0]
    tas = []
    for t in e["tensors"]:
        if all(r["implied"] for r in t["ranks"]):
            proj = [r["expr"] for r in t["ranks"]]
        else:
            proj = {r["rank"]: r["expr"] for r in t["ranks"]}
        d = {"name": t["name"], "projection": proj}
        if t["output"]:
            d["output"] = True
        tas.append(d)
    return {"name": out["name"], "tensor_accesses": tas}


def summarize(einsum_obj):
    return {"name": str(einsum_obj.name),
            "tensors": {str(t.name): {"projection": {str(k): str(v).replace(" ", "") for k, v in dict(t.projection).items()},
                                      "output": bool(t.output)} for t in einsum_obj.tensor_accesses}}


def expected_summary(e):
    out = [t for t in e["tensors"] if t["output"]][0]
    return {"name": out["name"],
            "tensors": {t["name"]: {"projection": {r["rank"]: r["expr"].replace(" ", "") for r in t["ranks"]}, "output": t["output"]}
                        for t in e["tensors"]}}


MALFORMED = ["no_equals", "two_equals", "missing_open_bracket", "missing_close_bracket_output", "unclosed_last_input",
             "empty_projection", "empty_entry", "duplicate_rank_explicit", "duplicate_rank_shorthand",
             "uppercase_rank_variable", "lowercase_rank_name", "no_input_tensor", "empty_string", "two_colons"]


def malformed(kind, rnd):
    a, b, c = rnd.sample(RVS[:6], 3)
    if kind == "no_equals":
        return f"Z[{a},{b}] A[{a},{c}] * B[{c},{b}]"
    if kind == "two_equals":
        return f"Z[{a},{b}] = A[{a},{c}] = B[{c},{b}]"
    if kind == "missing_open_bracket":
        return f"Z{a},{b}] = A[{a},{c}] * B[{c},{b}]"
    if kind == "missing_close_bracket_output":
        return f"Z[{a},{b} = A[{a},{c}] * B[{c},{b}]"
    if kind == "unclosed_last_input":
        return f"Z[{a},{b}] = A[{a},{c}] * B[{c},{b}"
    if kind == "empty_projection":
        return f"Z[] = A[{a},{c}] * B[{c},{b}]" if rnd.random() < 0.5 else f"Z[{a}] = A[] * B[{a}]"
    if kind == "empty_entry":
        return f"Z[{a},,{b}] = A[{a},{c}] * B[{c},{b}]"
    if kind == "duplicate_rank_explicit":
        return f"Z[M: {a}, M: {b}] = A[{a},{c}] * B[{c},{b}]"
    if kind == "duplicate_rank_shorthand":
        return f"Z[{a},{a}] = A[{a},{c}] * B[{c},{b}]" if rnd.random() < 0.5 else f"Z[{a}] = A[{a},{c},{a}]"
    if kind == "uppercase_rank_variable":
        return f"Z[{a.upper()},{b}] = A[{a},{c}] * B[{c},{b}]"
    if kind == "lowercase_rank_name":
        return f"Z[{a}: {a}+{b}] = A[{a},{c}] * B[{c},{b}]"
    if kind == "no_input_tensor":
        return f"Z[{a},{b}] = 3"
    if kind == "empty_string":
        return rnd.choice(["", "   ", "\t"])
    if kind == "two_colons":
        return f"Z[M: {a}: {b}] = A[{a},{c}]"
    raise ValueError(kind)


def check_einsum(e, seed, counters):
    from accelforge.frontend.workload import Workload
    rnd = random.Random(seed)
    s = concise(e, rnd)
    v = verbose(e)
    exp = expected_summary(e)
    viol = []
    try:
        wc = Workload(einsums=[s], rank_sizes={})
        wv = Workload(einsums=[json.loads(json.dumps(v))], rank_sizes={})
    except Exception as ex:
        return [{"sig": "valid_einsum_rejected", "witness": {"concise": s, "verbose": v, "error": f"{type(ex).__name__}: {str(ex)[:300]}"}}], s
    counters["equivalences_checked"] = counters.get("equivalences_checked", 0) + 1
    sc, sv = summarize(wc.einsums[0]), summarize(wv.einsums[0])
    if sc != sv or sc != exp:
        what = "projection" if sc["tensors"].keys() == sv["tensors"].keys() else "tensor_names"
        viol.append({"sig": f"concise_differs_from_verbose:{what}", "witness": {"concise": s, "from_concise": sc, "from_verbose": sv, "expected": exp}})
    # merge of extra attributes must not change names / projections / output flags
    t0 = e["tensors"][0]["name"]
    entry = {"einsum": s, "tensor_accesses": [{"name": t0, "bits_per_value": 4}], "n_instances": 3}
    try:
        wm = Workload(einsums=[entry], rank_sizes={})
        counters["merges_checked"] = counters.get("merges_checked", 0) + 1
        sm = summarize(wm.einsums[0])
        em = wm.einsums[0]
        if sm != exp:
            viol.append({"sig": "merge_changes_einsum", "witness": {"entry": entry, "merged": sm, "expected": exp}})
        elif em.n_instances != 3 or em.tensor_accesses[t0].bits_per_value != 4:
            viol.append({"sig": "merge_drops_extra_attribute", "witness": {"entry": entry, "n_instances": em.n_instances,
                                                                         "bits_per_value": em.tensor_accesses[t0].bits_per_value}})
    except Exception as ex:
        viol.append({"sig": "merge_rejected", "witness": {"entry": entry, "error": f"{type(ex).__name__}: {str(ex)[:300]}"}})
    return viol, s


def check_malformed(kind, seed, counters):
    from accelforge.frontend.workload import Workload
    s = malformed(kind, random.Random(seed))
    counters["malformed_checked"] = counters.get("malformed_checked", 0) + 1
    try:
        w = Workload(einsums=[s], rank_sizes={})
    except Exception:
        return []
    sig = {"duplicate_rank_shorthand": "shorthand_duplicate_rank_accepted",
           "unclosed_last_input": "unclosed_trailing_access_ignored"}.get(kind, f"malformed_accepted:{kind}")
    return [{"sig": sig, "witness": {"string": s, "class": kind, "parsed": summarize(w.einsums[0])}}]


def run_case(case):
    counters, viol, nontriv, sample = {}, [], [], None
    if "einsum" in case:
        v, _ = check_einsum(case["einsum"], case["rseed"], counters)
        return {"status": "violation" if v else "ok", "violations": v, "counters": counters, "nontrivial": ["explicit"]}
    if "malformed" in case:
        v = check_malformed(case["malformed"], case["rseed"], counters)
        return {"status": "violation" if v else "ok", "violations": v, "counters": counters, "nontrivial": ["explicit"]}
    rnd = random.Random(case["seed"])
    per_sig = {}

    def add(vs, rep):
        for x in vs:
            per_sig[x["sig"]] = per_sig.get(x["sig"], 0) + 1
            if per_sig[x["sig"]] <= 2:
                x["case"] = rep
                viol.append(x)

    for _ in range(case["count"]):
        e = gen_einsum(rnd)
        rseed = rnd.randrange(2**31)
        v, s = check_einsum(e, rseed, counters)
        add(v, {"class": "einsum", "einsum": e, "rseed": rseed})
        nexp = sum(1 for t in e["tensors"] for r in t["ranks"] if not r["implied"])
        if nexp >= 1 or max(len(t["ranks"]) for t in e["tensors"]) >= 2:
            nontriv.append(s)
            if sample is None and nexp:
                sample = {"concise": s, "verbose": verbose(e)}
    for kind in MALFORMED:
        for _ in range(3):
            rseed = rnd.randrange(2**31)
            add(check_malformed(kind, rseed, counters), {"class": "einsum", "malformed": kind, "rseed": rseed})
    # recorded only: 0-rank tensors have no concise spelling
    try:
        from accelforge.frontend.workload import Workload
        Workload(einsums=["Z[] = A[m]"], rank_sizes={})
        counters["scalar_concise_accepted"] = counters.get("scalar_concise_accepted", 0) + 1
    except Exception:
        counters["scalar_concise_rejected(recorded, not judged)"] = counters.get("scalar_concise_rejected(recorded, not judged)", 0) + 1
    return {"status": "violation" if viol else "ok", "violations": viol, "nontrivial": nontriv,
            "counters": counters, "sample": sample}
