"""C13 - joining pmappings equals the exhaustive combination of compatible pmappings."""
import json
import random

from ..gen import specs as gs

ID = "C13"
LEVEL = "exploration"
CHUNK = 1
CASE_TIMEOUT = 1800
REQUIRED_COUNTERS = ["specs_compared", "compatible_pairs_combined", "pairs_examined"]
RULE = ("2-Einsum specs (matmul chains, matvec chains, fan-in with both Einsum orders; tight / generous buffers; "
        "max_fused_loops in {0,1,2,inf}); the per-Einsum pmapping tables of the real run (make_pmappings) are expanded row "
        "by row to concrete per-Einsum trees; EVERY pair of rows is examined: compatible iff for every shared tensor the "
        "backing component agrees and the loops above the backing storage agree in rank variable and tile shape up to "
        "permutation inside a run of adjacent loops (decided from the trees, not from Compatibility objects); each "
        "compatible pair is merged into a fused LoopTree by an own merger, evaluated by the real model (capacity "
        "included; its energy/latency must equal the sum of the two rows), and the combinations are Pareto-filtered by the "
        "reference filter; the resulting (energy, latency[, usage]) front must equal the front of main.join_pmappings on "
        "the same tables. non-trivial = >= 2 compatible pairs and >= 2 rows per Einsum; distinct = (spec, knobs, metrics)")
ASSUMPTIONS = ["2-Einsum slice (3-Einsum joins are covered differentially by C14)",
               "tables larger than 70 rows per Einsum are skipped and counted (pair budget)",
               "float32 tolerance 2^-16 when matching front points"]
TECHNIQUE = "runtime monitoring: exhaustive pairwise combination with tree-level compatibility and an independent tree merger as reference for the real join on recorded pmapping tables"


def gen_cases(tier, seed):
    rnd = random.Random(f"C13-{seed}")
    n = 24 if tier == "quick" else 250
    cases = []
    for i in range(n):
        wk = rnd.choice(["chain2", "mvchain2", "mvchain2", "fanin2", "chain2"])
        d = gs.gen_spec(rnd, wk, levels=2, size_class=rnd.choice(["tight", "tight", "generous"]), costs=rnd.choice(["tradeoff", "tradeoff", "random"]))
        if wk == "chain2":
            for rv in d["workload"]["ranks"]:
                d["workload"]["ranks"][rv] = rnd.choice([2, 3, 4])
        if wk == "fanin2" and rnd.random() < 0.5:
            d["workload"]["einsums"].reverse()
        if rnd.random() < 0.5:
            d["mapper"]["max_fused_loops"] = rnd.choice([0, 1, 2])
        cases.append({"class": wk + "/" + d["arch"]["size_class"], "desc": d,
                      "metrics": "ENERGY|LATENCY" if i % 3 else "ENERGY|LATENCY|RESOURCE_USAGE"})
    return cases


def run_case(case):
    from .. import harness as H
    from ..ref import joinref as jr
    from ..ref.pareto import front
    from accelforge.frontend.mapping import Mapping
    from accelforge.mapper.FFM.main import join_pmappings, make_pmappings
    from accelforge.mapper.FFM._join_pmappings.join_pmappings import get_rank_variable_bounds_for_all_einsums
    from accelforge.mapper.FFM._join_pmappings.pmapping_dataframe import row2pmappings
    from accelforge.model.main import InvalidMappingError
    H.serial()
    d, metrics = case["desc"], case["metrics"]
    counters, viol = {}, []

    def bump(k, n=1):
        counters[k] = counters.get(k, 0) + n
    m = H.metrics_of(metrics)
    spec = H.build_spec(d)
    spec.mapper.metrics = m
    try:
        pm = make_pmappings(spec, print_progress=False)
    except Exception as ex:
        if "No pmappings" in str(ex) or "no pmappings" in str(ex):
            return {"status": "ok", "counters": {"no_pmappings": 1}}
        raise
    rvb = get_rank_variable_bounds_for_all_einsums(spec)
    tables = {}
    for e, groups in pm.einsum2pmappings.items():
        rows = []
        for g in groups:
            data = g.mappings.data
            for i in range(len(data)):
                row = data.iloc[i].copy()
                row[f"{e}<SEP>mapping"] = pm.pmapping_objects[e][row[f"{e}<SEP>mapping"]]
                mp = Mapping._from_pmappings(row2pmappings(row, [e], rvb), rank_variable_bounds=rvb)
                rows.append((float(row["Total<SEP>energy"]), float(row["Total<SEP>latency"]), H.plain_tree(mp)))
        tables[e] = rows
    if len(tables) != 2 or any(len(r) > 70 for r in tables.values()):
        bump("skipped_over_pair_budget")
        return {"status": "ok", "counters": counters, "reason": "pair budget"}
    shared = jr.shared_tensors(d["workload"])
    (ea, ra), (eb, rb) = list(tables.items())
    finite = [x["name"] for x in d["arch"]["mems"] if x.get("size", "inf") != "inf"]
    with_usage = "RESOURCE_USAGE" in metrics
    cands = []
    fallback_points = set()
    for a in ra:
        for b in rb:
            bump("pairs_examined")
            if not jr.compatible(a[2], b[2], shared):
                continue
            bump("compatible_pairs_combined")
            try:
                tree = jr.merge(a[2], b[2], shared, [x["name"] for x in d["arch"]["mems"]])
                ev = H.eval_tree(d, tree)
            except InvalidMappingError:
                bump("combinations_over_capacity")
                continue
            except Exception as ex:
                # the model (which joins the branches itself) refuses the fused tree: fall back to the sums and
                # to the occupancy simulator for usage / capacity, and remember that this happened
                bump("model_refuses_merged_tree:" + type(ex).__name__)
                try:
                    from ..ref.occupancy import Occupancy
                    arch = {x["name"]: {"kind": x.get("kind", "Memory"), "bits": x.get("bits_per_value")} for x in d["arch"]["mems"]}
                    pk = Occupancy(d["workload"], arch).run(tree).peaks("tile")
                    size = {x["name"]: x["size"] for x in d["arch"]["mems"]}
                    if any(pk.get(x, 0) > size[x] for x in finite):
                        bump("combinations_over_capacity")
                        continue
                    v = [a[0] + b[0], a[1] + b[1]] + ([round(pk.get(x, 0) / size[x], 6) for x in finite] if with_usage else [])
                    cands.append(tuple(v))
                    fallback_points.add(tuple(v))
                except Exception as ex2:
                    bump("reference_merger_failed:" + type(ex2).__name__)
                continue
            E, L = float(ev.energy()), float(ev.latency())
            if not (H.close(E, a[0] + b[0], rel=1e-5) and H.close(L, a[1] + b[1], rel=1e-5)):
                bump("reference_sum_mismatch(inconclusive)")
                continue
            v = [a[0] + b[0], a[1] + b[1]]
            if with_usage:
                ru = ev.resource_usage()
                v += [round(float(ru.get(x, 0.0)), 6) for x in finite]     # the join carries usage in float32
            cands.append(tuple(v))
    try:
        joined = join_pmappings(pm, metrics=m, print_progress=False)
        jrows = H.result_rows(joined, with_tree=False)
    except Exception as ex:
        if any(s in str(ex) for s in ("No valid", "no valid", "No mappings", "no mappings")):
            jrows = None
        else:
            raise
    bump("specs_compared")
    if counters.get("reference_merger_failed:ValueError") or counters.get("reference_sum_mismatch(inconclusive)"):
        return {"status": "inconclusive", "reason": "reference merger could not build/confirm some combination", "counters": counters}
    if jrows is None or not cands:
        if (jrows is None) != (not cands):
            viol.append({"sig": "join_and_reference_disagree_on_existence", "witness": {"join_has_rows": jrows is not None, "reference_combinations": len(cands), "spec": gs.summary(d)}})
        return {"status": "violation" if viol else "ok", "violations": viol, "counters": counters}
    got = sorted({tuple([r["energy"], r["latency"]] + ([round(r["usage"].get(x, 0.0), 6) for x in finite] if with_usage else [])) for r in jrows})
    ref = front(cands)
    tol = 2.0 ** -16

    def near(x, y):
        return all(abs(p - q) <= tol * max(abs(p), abs(q)) + 1e-6 for p, q in zip(x, y))
    all_c = sorted(set(cands))
    only_join = [g for g in got if not any(near(g, c) for c in (all_c if with_usage else ref))]
    only_ref = [r for r in ref if not any(near(r, g) for g in got)]
    if only_join or only_ref:
        kind = "join_misses_combinations" if only_ref and not only_join else ("join_returns_unknown_or_dominated_points" if only_join and not only_ref else "fronts_differ")
        if only_ref and all(tuple(r) in fallback_points for r in only_ref) and not only_join:
            kind = "join_refuses_tree_compatible_pair"
        viol.append({"sig": kind + (":with_usage" if with_usage else ""),
                     "witness": {"metrics": metrics, "only_in_join": only_join[:6], "only_in_reference": only_ref[:6], "join_front": len(got), "reference_front": len(ref),
                                 "compatible_pairs": counters.get("compatible_pairs_combined", 0), "spec": gs.summary(d)}})
    nt = [json.dumps([d["class"], d["workload"]["ranks"], d["mapper"], metrics, [e["name"] for e in d["workload"]["einsums"]]])] \
        if counters.get("compatible_pairs_combined", 0) >= 2 and min(len(ra), len(rb)) >= 2 else []
    return {"status": "violation" if viol else "ok", "violations": viol, "nontrivial": nt, "counters": counters,
            "sample": {"spec": gs.summary(d), "rows_per_einsum": [len(ra), len(rb)], "compatible_pairs": counters.get("compatible_pairs_combined", 0),
                       "reference_front": [list(x) for x in ref[:8]]}}
