"""C13 - joining pmappings equals the exhaustive combination of compatible pmappings."""
import json
import random

from ..gen import specs as gs

ID = "C13"
LEVEL = "exploration"
CHUNK = 1
CASE_TIMEOUT = 1800
REQUIRED_COUNTERS = ["specs_compared", "compatible_pairs_combined", "pairs_examined"]
RULE = ("2- and 3-Einsum specs (matmul chains, batched matmul chains whose intermediates carry two fusable ranks and whose "
        "weights are reused across opposite ranks, matvec chains, fan-in with both Einsum orders; tight / generous buffers; "
        "max_fused_loops in {0,1,2,inf}; metric sets with and without latency / usage); 3-Einsum chains: every pairwise-"
        "compatible TRIPLE, merged by the chain merger (more than 400 triples: capacity/usage from the occupancy simulator, a "
        "sample cross-checked against the model, any difference to the join decided by model evaluation only); the per-Einsum pmapping tables of the real run (make_pmappings) are expanded row "
        "by row to concrete per-Einsum trees; EVERY pair of rows is examined: compatible iff for every shared tensor the "
        "backing component agrees and the loops above the backing storage agree in rank variable and tile shape up to "
        "permutation inside a run of adjacent loops (decided from the trees, not from Compatibility objects); each "
        "compatible pair is merged into a fused LoopTree by an own merger, evaluated by the real model (capacity "
        "included; its energy/latency must equal the sum of the two rows), and the combinations are Pareto-filtered by the "
        "reference filter; the resulting (energy, latency[, usage]) front must equal the front of main.join_pmappings on "
        "the same tables. non-trivial = >= 2 compatible pairs and >= 2 rows per Einsum; distinct = (spec, knobs, metrics)")
ASSUMPTIONS = ["2-Einsum workloads and 3-Einsum chains (no tensor shared by the first and the last Einsum)",
               "tables larger than 70 (2 Einsums) / 600 (3 Einsums) rows per Einsum, or more than 12000 compatible triples, are skipped and counted",
               "float32 tolerance 2^-16 when matching front points"]
TECHNIQUE = "runtime monitoring: exhaustive pairwise combination with tree-level compatibility and an independent tree merger as reference for the real join on recorded pmapping tables"


def gen_cases(tier, seed):
    rnd = random.Random(f"C13-{seed}")
    n = 24 if tier == "quick" else 140
    cases = []
    for i in range(n):
        wk = rnd.choice(["chain2", "mvchain2", "mvchain2", "fanin2", "chain2", "bchain2", "bchain3", "bchain3", "chain3", "shrink"])
        if wk == "shrink":
            # the buffer fits the last Einsum's tensors but not the first one's (memory-tracking shortcuts must not
            # drop a memory whose capacity binds for an earlier Einsum)
            d = gs.shrinking_chain_spec(rnd, rnd.choice([2, 3]), costs=rnd.choice(["tradeoff", "random"]))
            wk = "shrink" + str(len(d["workload"]["einsums"]))
        else:
            d = gs.gen_spec(rnd, wk, levels=2, size_class=rnd.choice(["tight", "tight", "generous"]), costs=rnd.choice(["tradeoff", "tradeoff", "random"]))
        if wk in ("chain2", "chain3"):
            for rv in d["workload"]["ranks"]:
                d["workload"]["ranks"][rv] = rnd.choice([2, 3, 4] if wk == "chain2" else [2, 2, 3])
        opposed = False
        if wk == "bchain3":
            for rv in d["workload"]["ranks"]:
                d["workload"]["ranks"][rv] = rnd.choice([2, 2, 2, 3, 4]) if rv in ("b", "m") else 2
            if rnd.random() < 0.6:
                # "opposed" class: one weight is reused across m (wants b outermost), another across b (wants m
                # outermost), the third is indifferent -> the fused loop ORDER pinned by one Einsum must survive the
                # join with the next; capacity binds so that holding both weights stationary would pay off
                opposed = True
                ex = rnd.choice([(["b"], [], ["m"]), (["m"], [], ["b"]), (["b"], ["m"], []), ([], ["b"], ["m"])])
                for e, x in zip(d["workload"]["einsums"], ex):
                    k = int(e["name"][1:])
                    e["tensors"][1]["proj"] = list(x) + [f"n{k}", f"n{k + 1}"]
                d["workload"]["ranks"].update(b=2, m=rnd.choice([2, 4, 4]))
                bits = d["workload"]["bits"]
                d["arch"]["mems"][0]["keep"] = "~Intermediates"
                d["arch"]["mems"][1].update(size=bits * rnd.choice([24, 32, 32, 40, 48]), keep="~MainMemory", may_keep="All")
                d["arch"]["size_class"] = "tight-opposed"
        if wk == "fanin2" and rnd.random() < 0.5:
            d["workload"]["einsums"].reverse()
        if rnd.random() < 0.5 and not opposed and not wk.startswith("shrink"):
            d["mapper"]["max_fused_loops"] = rnd.choice([0, 1, 2])
        metrics = "ENERGY|LATENCY" if (i % 3 and not wk.startswith("bchain")) or (wk.startswith("bchain") and i % 3 == 0) \
            else "ENERGY|LATENCY|RESOURCE_USAGE"
        if wk.startswith("shrink"):
            metrics = rnd.choice(["ENERGY|LATENCY", "ENERGY", "ENERGY|LATENCY"])
        if opposed:
            metrics = rnd.choice(["ENERGY|RESOURCE_USAGE", "ENERGY|RESOURCE_USAGE", "ENERGY|LATENCY|RESOURCE_USAGE", "ENERGY"])
        cases.append({"class": wk + "/" + d["arch"]["size_class"], "desc": d, "metrics": metrics})
    return cases


def run_case(case):
    from .. import harness as H
    from ..ref import joinref as jr
    from ..ref.pareto import front
    from accelforge.frontend.mapping import Mapping
    from accelforge.mapper.FFM.main import join_pmappings, make_pmappings
    from accelforge.mapper.FFM._join_pmappings.join_pmappings import get_rank_variable_bounds_for_all_einsums
    from accelforge.mapper.FFM._join_pmappings.pmapping_dataframe import row2pmappings
    from accelforge.model.main import InvalidMappingError
    H.serial()
    d, metrics = case["desc"], case["metrics"]
    counters, viol = {}, []

    def bump(k, n=1):
        counters[k] = counters.get(k, 0) + n
    m = H.metrics_of(metrics)
    spec = H.build_spec(d)
    spec.mapper.metrics = m
    try:
        pm = make_pmappings(spec, print_progress=False)
    except Exception as ex:
        if "No pmappings" in str(ex) or "no pmappings" in str(ex):
            return {"status": "ok", "counters": {"no_pmappings": 1}}
        raise
    rvb = get_rank_variable_bounds_for_all_einsums(spec)
    tables = {}
    for e, groups in pm.einsum2pmappings.items():
        rows = []
        for g in groups:
            data = g.mappings.data
            for i in range(len(data)):
                row = data.iloc[i].copy()
                row[f"{e}<SEP>mapping"] = pm.pmapping_objects[e][row[f"{e}<SEP>mapping"]]
                mp = Mapping._from_pmappings(row2pmappings(row, [e], rvb), rank_variable_bounds=rvb)
                rows.append((float(row["Total<SEP>energy"]), float(row["Total<SEP>latency"]) if "Total<SEP>latency" in row.index else None, H.plain_tree(mp)))
        tables[e] = rows
    if len(tables) not in (2, 3) or any(len(r) > (70 if len(tables) == 2 else 600) for r in tables.values()):
        bump("skipped_over_pair_budget")
        return {"status": "ok", "counters": counters, "reason": "pair budget: rows " + str([len(r) for r in tables.values()])}
    if len(tables) == 3:
        return _chain3(case, d, metrics, m, pm, tables, counters, bump)
    shared = jr.shared_tensors(d["workload"])
    (ea, ra), (eb, rb) = list(tables.items())
    finite = [x["name"] for x in d["arch"]["mems"] if x.get("size", "inf") != "inf"]
    with_usage = "RESOURCE_USAGE" in metrics
    cands = []
    fallback_points = set()
    trees = {}
    for a in ra:
        for b in rb:
            bump("pairs_examined")
            if not jr.compatible(a[2], b[2], shared):
                continue
            bump("compatible_pairs_combined")
            _combo(d, lambda: jr.merge(a[2], b[2], shared, [x["name"] for x in d["arch"]["mems"]]), a[0] + b[0], _add(a[1], b[1]),
                   with_usage, finite, bump, cands, fallback_points, trees)
    return _compare(d, metrics, m, pm, cands, fallback_points, counters, bump, [len(ra), len(rb)], trees=trees)


def _add(*xs):
    return None if any(x is None for x in xs) else sum(xs)


def _vec(e, l):
    return [e] if l is None else [e, l]


def _combo(d, build, se, sl, with_usage, finite, bump, cands, fallback_points, trees=None):
    """One compatible combination: merged by the reference merger, evaluated by the real model."""
    from .. import harness as H
    from accelforge.model.main import InvalidMappingError
    try:
        tree = build()
    except ValueError:
        # pairwise-compatible rows whose loops above the intermediates admit no common order
        bump("combinations_without_common_order")
        return
    try:
        ev = H.eval_tree(d, tree)
    except InvalidMappingError:
        bump("combinations_over_capacity")
        return
    except Exception as ex:
        # the model (which joins the branches itself) refuses the fused tree: fall back to the sums and
        # to the occupancy simulator for usage / capacity, and remember that this happened
        bump("model_refuses_merged_tree:" + type(ex).__name__)
        try:
            from ..ref.occupancy import Occupancy
            arch = {x["name"]: {"kind": x.get("kind", "Memory"), "bits": x.get("bits_per_value")} for x in d["arch"]["mems"]}
            pk = Occupancy(d["workload"], arch).run(tree).peaks("tile")
            size = {x["name"]: x["size"] for x in d["arch"]["mems"]}
            if any(pk.get(x, 0) > size[x] for x in finite):
                bump("combinations_over_capacity")
                return
            v = _vec(se, sl) + ([round(pk.get(x, 0) / size[x], 6) for x in finite] if with_usage else [])
            cands.append(tuple(v))
            fallback_points.add(tuple(v))
        except Exception as ex2:
            bump("reference_merger_failed:" + type(ex2).__name__)
        return
    E, L = float(ev.energy()), float(ev.latency())
    if not (H.close(E, se, rel=1e-5) and (sl is None or H.close(L, sl, rel=1e-5))):
        bump("reference_sum_mismatch(inconclusive)")
        return
    v = _vec(se, sl)
    if with_usage:
        ru = ev.resource_usage()
        v += [round(float(ru.get(x, 0.0)), 6) for x in finite]     # the join carries usage in float32
    cands.append(tuple(v))
    if trees is not None:
        trees.setdefault(tuple(v), tree)
        try:
            full = max([float(u) for k, u in ev.resource_usage().items() if k in finite] or [0.0])
            if abs(full - 1.0) <= 1e-6:
                trees.setdefault(("exact_fit", tuple(v)), True)
        except Exception:
            pass


def _fit_depends_on_holder_order(d, tree, bump):
    from .. import harness as H
    from ..ref.treevariants import holder_order_variants
    from accelforge.model.main import InvalidMappingError
    if tree is None:
        return False
    for v in holder_order_variants(d, tree, 60):
        try:
            H.eval_tree(d, v)
        except InvalidMappingError:
            bump("holder_order_variant_over_capacity")
            return True
        except Exception:
            continue
    return False


def _compare(d, metrics, m, pm, cands, fallback_points, counters, bump, sizes, _cache=None, trees=None):
    from .. import harness as H
    from ..ref.pareto import front
    from accelforge.mapper.FFM.main import join_pmappings
    viol = []
    ra = rb = None
    finite = [x["name"] for x in d["arch"]["mems"] if x.get("size", "inf") != "inf"]
    with_usage = "RESOURCE_USAGE" in metrics
    if _cache is not None and "jrows" in _cache:
        jrows = _cache["jrows"]
    else:
        try:
            joined = join_pmappings(pm, metrics=m, print_progress=False)
            jrows = H.result_rows(joined, with_tree=False)
        except Exception as ex:
            if any(s in str(ex) for s in ("No valid", "no valid", "No mappings", "no mappings")):
                jrows = None
            else:
                raise
        if _cache is not None:
            _cache["jrows"] = jrows
    bump("specs_compared")
    if counters.get("reference_merger_failed:ValueError") or counters.get("reference_sum_mismatch(inconclusive)"):
        return {"status": "inconclusive", "reason": "reference merger could not build/confirm some combination", "counters": counters}
    if jrows is None or not cands:
        if (jrows is None) != (not cands):
            viol.append({"sig": "join_and_reference_disagree_on_existence", "witness": {"join_has_rows": jrows is not None, "reference_combinations": len(cands), "spec": gs.summary(d)}})
        return {"status": "violation" if viol else "ok", "violations": viol, "counters": counters}
    got = sorted({tuple(_vec(r["energy"], r["latency"] if "LATENCY" in metrics else None) + ([round(r["usage"].get(x, 0.0), 6) for x in finite] if with_usage else [])) for r in jrows})
    ref = front(cands)
    tol = 2.0 ** -16

    def near(x, y):
        return all(abs(p - q) <= tol * max(abs(p), abs(q)) + 1e-6 for p, q in zip(x, y))
    all_c = sorted(set(cands))
    only_join = [g for g in got if not any(near(g, c) for c in (all_c if with_usage else ref))]
    only_ref = [r for r in ref if not any(near(r, g) for g in got)]
    if only_join or only_ref:
        kind = "join_misses_combinations" if only_ref and not only_join else ("join_returns_unknown_or_dominated_points" if only_join and not only_ref else "fronts_differ")
        if only_ref and all(tuple(r) in fallback_points for r in only_ref) and not only_join:
            kind = "join_refuses_tree_compatible_pair"
        elif only_ref and not only_join and trees and all(trees.get(("exact_fit", tuple(r))) for r in only_ref):
            # every missing combination fills a buffer EXACTLY (usage 1.0): the join compares float32 sums of
            # reservation fractions with `<= 1` (the C08 finding exact_fit_dropped_by_float32_rounding, here in
            # limit_capacity)
            kind = "join_drops_exact_fit_combination"
        elif only_ref and not only_join and trees and all(_fit_depends_on_holder_order(d, trees.get(tuple(r)), bump) for r in only_ref):
            # the missing combinations fit or not depending on the ORDER of adjacent storage nodes of the same loop
            # nest (the model's usage depends on it: C06 finding); the reference merger happened to build an order
            # that fits, the join's own accounting is the other one
            kind = "join_rejects_combination_whose_fit_depends_on_holder_order"
        viol.append({"sig": kind + (":with_usage" if with_usage else ""),
                     "witness": {"metrics": metrics, "only_in_join": only_join[:6], "only_in_reference": only_ref[:6],
                                 "only_in_join_all": only_join[:40], "only_in_reference_all": only_ref[:40], "join_front": len(got), "reference_front": len(ref),
                                 "compatible_pairs": counters.get("compatible_pairs_combined", 0), "spec": gs.summary(d)}})
    nt = [json.dumps([d["class"], d["workload"]["ranks"], d["mapper"], metrics, [e["name"] for e in d["workload"]["einsums"]]])] \
        if counters.get("compatible_pairs_combined", 0) >= 2 and min(sizes) >= 2 else []
    return {"status": "violation" if viol else "ok", "violations": viol, "nontrivial": nt, "counters": counters,
            "sample": {"spec": gs.summary(d), "rows_per_einsum": sizes, "compatible_pairs": counters.get("compatible_pairs_combined", 0),
                       "reference_front": [list(x) for x in ref[:8]]}}


TRIPLE_BUDGET = 12000
MODEL_BUDGET = 400


def _chain3(case, d, metrics, m, pm, tables, counters, bump):
    """3-Einsum chain E0 -> E1 -> E2: every compatible TRIPLE of rows is merged by the reference merger and
    evaluated by the real model."""
    from .. import harness as H
    from ..ref import joinref as jr
    from accelforge.model.main import InvalidMappingError
    names = [e["name"] for e in d["workload"]["einsums"]]
    ra, rb, rc = (tables[n] for n in names)
    users = {}
    for e in d["workload"]["einsums"]:
        for t in e["tensors"]:
            users.setdefault(t["name"], set()).add(e["name"])
    sh_ab = sorted(t for t, u in users.items() if {names[0], names[1]} <= u)
    sh_bc = sorted(t for t, u in users.items() if {names[1], names[2]} <= u)
    if any({names[0], names[2]} <= u for u in users.values()):
        bump("skipped_not_a_chain")
        return {"status": "ok", "counters": counters}
    ab = [[jr.compatible(a[2], b[2], sh_ab) for b in rb] for a in ra]
    bc = [[jr.compatible(b[2], c[2], sh_bc) for c in rc] for b in rb]
    bump("pairs_examined", len(ra) * len(rb) + len(rb) * len(rc))
    triples = [(i, j, k) for i in range(len(ra)) for j in range(len(rb)) if ab[i][j] for k in range(len(rc)) if bc[j][k]]
    if len(triples) > TRIPLE_BUDGET:
        bump("skipped_over_pair_budget")
        return {"status": "ok", "counters": counters, "reason": f"{len(triples)} compatible triples, tables {len(ra)},{len(rb)},{len(rc)}"}
    mems = [x["name"] for x in d["arch"]["mems"]]
    finite = [x["name"] for x in d["arch"]["mems"] if x.get("size", "inf") != "inf"]
    with_usage = "RESOURCE_USAGE" in metrics
    if len(triples) > MODEL_BUDGET:
        return _chain3_staged(d, metrics, m, pm, (ra, rb, rc), triples, (sh_ab, sh_bc), counters, bump)
    cands, fallback_points = [], set()
    for i, j, k in triples:
        a, b, c = ra[i], rb[j], rc[k]
        bump("compatible_pairs_combined")
        bump("compatible_triples_combined")
        _combo(d, lambda: jr.merge_chain3(a[2], b[2], c[2], sh_ab, sh_bc, mems), a[0] + b[0] + c[0], _add(a[1], b[1], c[1]),
               with_usage, finite, bump, cands, fallback_points)
    return _compare(d, metrics, m, pm, cands, fallback_points, counters, bump, [len(ra), len(rb), len(rc)])


def _chain3_staged(d, metrics, m, pm, tabs, triples, shared, counters, bump):
    """Many compatible triples: capacity / usage of every merged tree come from the occupancy SIMULATOR (the
    reference of C06, imports nothing from accelforge); a random sample is cross-checked against the real model.
    When the resulting front differs from the join's, every triple is re-evaluated by the real model (under a
    watchdog) and only that comparison can produce a violation."""
    import random
    from .. import harness as H
    from ..ref import joinref as jr
    from ..ref.occupancy import Occupancy
    from ..timeouts import time_limit
    ra, rb, rc = tabs
    sh_ab, sh_bc = shared
    mems = [x["name"] for x in d["arch"]["mems"]]
    finite = [x["name"] for x in d["arch"]["mems"] if x.get("size", "inf") != "inf"]
    size = {x["name"]: x["size"] for x in d["arch"]["mems"]}
    arch = {x["name"]: {"kind": x.get("kind", "Memory"), "bits": x.get("bits_per_value")} for x in d["arch"]["mems"]}
    with_usage = "RESOURCE_USAGE" in metrics
    cands, trees = [], []
    for i, j, k in triples:
        a, b, c = ra[i], rb[j], rc[k]
        bump("compatible_pairs_combined")
        bump("compatible_triples_combined")
        try:
            tree = jr.merge_chain3(a[2], b[2], c[2], sh_ab, sh_bc, mems)
        except ValueError:
            bump("combinations_without_common_order")
            continue
        pk = Occupancy(d["workload"], arch).run(tree).peaks("tile")
        bump("combinations_simulated")
        se, sl = a[0] + b[0] + c[0], _add(a[1], b[1], c[1])
        if any(pk.get(x, 0) > size[x] for x in finite):
            bump("combinations_over_capacity")
            trees.append((tree, se, sl, None))
            continue
        v = tuple(_vec(se, sl) + ([round(pk.get(x, 0) / size[x], 6) for x in finite] if with_usage else []))
        cands.append(v)
        trees.append((tree, se, sl, v))
    # cross-check a sample of the simulated combinations against the real model
    from accelforge.model.main import InvalidMappingError
    rnd = random.Random(len(trees))
    for tree, se, sl, v in rnd.sample(trees, min(30, len(trees))):
        try:
            ev = H.eval_tree(d, tree)
            ru = ev.resource_usage()
            mv = tuple(_vec(se, sl) + ([round(float(ru.get(x, 0.0)), 6) for x in finite] if with_usage else []))
        except InvalidMappingError:
            mv = None
        except Exception:
            bump("sample_model_refuses_tree")
            continue
        bump("sample_cross_checked")
        if (mv is None) != (v is None) or (v is not None and any(abs(p - q) > 1e-5 for p, q in zip(v, mv))):
            bump("sample_simulator_model_disagree")
    sizes = [len(ra), len(rb), len(rc)]
    cache = {}
    res = _compare(d, metrics, m, pm, cands, set(), dict(counters), lambda *a, **k: None, sizes, cache)
    if res["status"] != "violation" and not counters.get("sample_simulator_model_disagree"):
        bump("specs_compared")
        bump("specs_decided_by_simulated_occupancy")
        res["counters"] = counters
        return res
    # disagreement: only MODEL-evaluated combinations decide.  For a point only the join has: every combination with
    # the same energy/latency sums; for a point only the reference has: the combination itself and everything that
    # could dominate it.
    bump("specs_re_evaluated_by_model")
    w = res["violations"][0]["witness"] if res.get("violations") else {"only_in_join": [], "only_in_reference": []}
    existence = bool(res.get("violations")) and res["violations"][0]["sig"].startswith("join_and_reference_disagree_on_existence")
    only_join = [tuple(x) for x in w.get("only_in_join_all", w.get("only_in_join", []))]
    only_ref = [tuple(x) for x in w.get("only_in_reference_all", w.get("only_in_reference", []))]
    nobj = 2 if "LATENCY" in metrics else 1
    tol = 2.0 ** -16
    memo = {}

    def near(x, y):
        return all(abs(p - q) <= tol * max(abs(p), abs(q)) + 1e-6 for p, q in zip(x, y))

    def mv(i):
        if i not in memo:
            tree, se, sl, v = trees[i]
            c2 = []
            _combo(d, lambda: tree, se, sl, with_usage, finite, bump, c2, set())
            bump("combinations_re_evaluated_by_model")
            memo[i] = c2[0] if c2 else None
        return memo[i]

    def sums(i):
        return tuple(_vec(trees[i][1], trees[i][2]))

    def dominates(a, r):
        return all(p <= q + tol * abs(q) + 1e-6 for p, q in zip(a, r)) and any(p < q - tol * abs(q) - 1e-6 for p, q in zip(a, r))
    conf_join, conf_ref = [], []
    try:
        with time_limit(1200):
            if existence:
                # join has rows <=> some combination is valid under the MODEL
                any_valid = any(mv(i) is not None for i in range(len(trees)))
                bump("specs_compared")
                res["counters"] = counters
                if any_valid == bool(w.get("join_has_rows")):
                    res["violations"], res["status"] = [], "ok"
                return res
            for g in only_join:
                same = [i for i in range(len(trees)) if near(sums(i), g[:nobj])]
                if not any(mv(i) is not None and near(mv(i), g) for i in same):
                    conf_join.append(g)
                elif not with_usage:
                    dom = [i for i in range(len(trees)) if all(p <= q + tol * abs(q) + 1e-6 for p, q in zip(sums(i), g[:nobj]))]
                    if any(mv(i) is not None and dominates(mv(i), g) for i in dom):
                        conf_join.append(g)
            for r in only_ref:
                own = [i for i in range(len(trees)) if trees[i][3] is not None and near(trees[i][3], r)]
                if not any(mv(i) is not None and near(mv(i), r) for i in own):
                    bump("reference_point_not_confirmed_by_model")
                    continue
                dom = [i for i in range(len(trees)) if all(p <= q + tol * abs(q) + 1e-6 for p, q in zip(sums(i), r[:nobj]))]
                if any(mv(i) is not None and dominates(mv(i), r) for i in dom):
                    bump("reference_point_dominated_under_model_values")
                    continue
                conf_ref.append(r)
    except BaseException as ex:
        if type(ex).__name__ != "ItemTimeout":
            raise
        return {"status": "inconclusive", "reason": "model re-evaluation ran out of time", "counters": counters}
    bump("specs_compared")
    if counters.get("sample_simulator_model_disagree") and not (conf_join or conf_ref):
        bump("difference_explained_by_simulator_vs_model")
    res["counters"] = counters
    if conf_join or conf_ref:
        kind = "join_misses_combinations" if conf_ref and not conf_join else ("join_returns_unknown_or_dominated_points" if conf_join and not conf_ref else "fronts_differ")
        w = dict(w, only_in_join=conf_join[:6], only_in_reference=conf_ref[:6], confirmed_by_model=True)
        w.pop("only_in_join_all", None), w.pop("only_in_reference_all", None)
        res["violations"] = [{"sig": kind + (":with_usage" if with_usage else ""), "witness": w}]
        res["status"] = "violation"
    else:
        res["violations"], res["status"] = [], "ok"
    return res
