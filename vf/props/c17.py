"""C17 - optima are consistent across metric combinations."""
import json
import random

from ..gen import specs as gs

ID = "C17"
LEVEL = "exploration"
CHUNK = 1
CASE_TIMEOUT = 900
REQUIRED_COUNTERS = ["specs_compared", "edp_identity_rows"]
RULE = ("specs from the small-spec family with a genuine energy/latency trade-off (outer memory expensive but fast, inner "
        "cheap but slow; plus random cost tables); four mapper runs per spec (ENERGY, LATENCY, ENERGY|LATENCY, "
        "ENERGY_DELAY_PRODUCT); offline comparison of the four call records: min energy / min latency on the E|L front "
        "vs the single-metric optima, min E*L over the front vs the EDP optimum, and EDP column == energy*latency on every "
        "returned row. non-trivial = the E|L front has >= 2 rows; distinct = (spec class, ranks, cost table)")
ASSUMPTIONS = ["float32 tolerance 2^-18 relative (2^-16 on products)"]
TECHNIQUE = "runtime monitoring: offline cross-check of recorded mapper results across metric sets"


def gen_cases(tier, seed):
    rnd = random.Random(f"C17-{seed}")
    n = 24 if tier == "quick" else 160
    cases = []
    for i in range(n):
        d = gs.gen_spec(rnd, rnd.choice(["mm1", "mm1", "mv1", "chain2", "fanin2", "mvchain2"]),
                        levels=rnd.choice([2, 2, 3]), costs=rnd.choice(["tradeoff", "tradeoff", "random"]))
        cases.append({"class": d["class"].split("/")[0] + "/" + d["arch"]["costs"], "desc": d})
    return cases


def run_case(case):
    from .. import harness as H
    d = case["desc"]
    counters, viol = {}, []
    recs = {}
    for m in ("ENERGY", "LATENCY", "ENERGY|LATENCY", "ENERGY_DELAY_PRODUCT"):
        try:
            recs[m] = H.result_rows(H.run_mapper(d, m), with_tree=False)
        except H.NoMapping:
            recs[m] = None
    if any(v is None for v in recs.values()):
        if not all(v is None for v in recs.values()):
            viol.append({"sig": "validity_depends_on_metric", "witness": {k: (v is not None) for k, v in recs.items()}})
        return {"status": "violation" if viol else "ok", "violations": viol, "counters": {"no_valid_mapping": 1}}
    counters["specs_compared"] = 1
    front = recs["ENERGY|LATENCY"]
    e_opt = min(r["energy"] for r in recs["ENERGY"])
    l_opt = min(r["latency"] for r in recs["LATENCY"])
    edp_opt = min(r["energy"] * r["latency"] for r in recs["ENERGY_DELAY_PRODUCT"])
    fe, fl = min(r["energy"] for r in front), min(r["latency"] for r in front)
    fedp = min(r["energy"] * r["latency"] for r in front)
    if not H.close(fe, e_opt):
        viol.append({"sig": "front_min_energy_" + ("above" if fe > e_opt else "below") + "_energy_optimum",
                     "witness": {"front_min_energy": fe, "energy_optimum": e_opt, "front": [[r["energy"], r["latency"]] for r in front]}})
    if not H.close(fl, l_opt):
        viol.append({"sig": "front_min_latency_" + ("above" if fl > l_opt else "below") + "_latency_optimum",
                     "witness": {"front_min_latency": fl, "latency_optimum": l_opt, "front": [[r["energy"], r["latency"]] for r in front]}})
    if not H.close(fedp, edp_opt, rel=2.0 ** -16):
        viol.append({"sig": "front_min_edp_" + ("above" if fedp > edp_opt else "below") + "_edp_optimum",
                     "witness": {"front_min_edp": fedp, "edp_optimum": edp_opt, "front": [[r["energy"], r["latency"]] for r in front]}})
    for m, rows in recs.items():
        for r in rows:
            if r["edp"] is not None:
                counters["edp_identity_rows"] = counters.get("edp_identity_rows", 0) + 1
                if not H.close(r["edp"], r["energy"] * r["latency"], rel=2.0 ** -16):
                    viol.append({"sig": "edp_column_not_energy_times_latency",
                                 "witness": {"metrics": m, "edp": r["edp"], "energy": r["energy"], "latency": r["latency"]}})
                    break
    nt = [json.dumps([d["class"], d["workload"]["ranks"], [[m["read_e"], m["read_tp"]] for m in d["arch"]["mems"]]])] if len(front) >= 2 else []
    return {"status": "violation" if viol else "ok", "violations": viol[:4], "nontrivial": nt, "counters": counters,
            "sample": {"spec": gs.summary(d), "energy_opt": e_opt, "latency_opt": l_opt, "edp_opt": edp_opt,
                       "front": [[r["energy"], r["latency"]] for r in front][:12]}}
