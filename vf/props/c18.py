"""C18 - relaxing the mapspace never makes the optimum worse."""
import copy
import json
import random

from ..gen import specs as gs

ID = "C18"
LEVEL = "exploration"
CHUNK = 2
CASE_TIMEOUT = 900
REQUIRED_COUNTERS = ["pairs_compared"]
RULE = ("metamorphic pairs (spec, spec with one relaxation): larger inner memory (x2, x4, inf), smaller keep set / larger "
        "may_keep set, max_fused_loops raised, max_fused_loops_per_rank_variable raised, imperfect factorisation enabled (square and composite bounds on tight buffers), "
        "loop_bounds constraint removed / min_usage lowered on a spatial fanout (spatial class); for ENERGY, LATENCY and "
        "EDP the relaxed optimum must be <= the original (float32 tolerance); a spec that maps while its relaxation does "
        "not is a violation. non-trivial = both sides map and the relaxation is not vacuous for the class; distinct = "
        "(spec, relaxation, metric)")
ASSUMPTIONS = ["float32 tolerance 2^-18 relative"]
TECHNIQUE = "runtime monitoring: metamorphic relaxation pairs over recorded mapper optima"

RELAX = ["bigger_memory", "memory_inf", "smaller_keep", "larger_may_keep", "more_fused_loops", "more_fused_per_rank", "imperfect"]


def gen_cases(tier, seed):
    rnd = random.Random(f"C18-{seed}")
    n = 48 if tier == "quick" else 400
    cases = []
    for i in range(n):
        relax = RELAX[i % len(RELAX)]
        multi = relax in ("more_fused_loops", "more_fused_per_rank")
        wk = rnd.choice(["chain2", "mvchain2", "fanin2"]) if multi else rnd.choice(["mm1", "mm1", "mv1", "chain2", "mvchain2"])
        d = gs.gen_spec(rnd, wk, levels=rnd.choice([2, 2, 3]),
                        size_class="tight" if relax in ("bigger_memory", "memory_inf") else None)
        if relax == "imperfect":
            # every perfect factor (the square root of a square bound in particular) must stay reachable when imperfect
            # factorisation is switched on; tight buffers make intermediate tile sizes the optimum
            d = gs.gen_spec(rnd, rnd.choice(["mm1", "mm1", "mv1"]), levels=2, size_class="tight")
            for rv in d["workload"]["ranks"]:
                d["workload"]["ranks"][rv] = rnd.choice([4, 9, 16, 4, 9, 6, 12, 25])
            sizes = sorted(gs.tensor_sizes(d["workload"]).values())
            d["arch"]["mems"][1]["size"] = rnd.randint(max(2, sizes[0] // 4), max(3, sizes[-1])) * d["workload"]["bits"]
        if relax == "smaller_keep":
            d["arch"]["mems"][1]["keep"] = rnd.choice(["Inputs", "Outputs", "~MainMemory | Inputs", "All"]) if len(d["workload"]["einsums"]) == 1 else "~MainMemory | Inputs"
        if relax == "larger_may_keep":
            d["arch"]["mems"][1]["may_keep"] = rnd.choice(["Inputs", "Outputs"]) if len(d["workload"]["einsums"]) == 1 else "~MainMemory | Inputs"
            if len(d["workload"]["einsums"]) == 1:
                d["arch"]["mems"][1]["keep"] = "Nothing"
        if relax == "more_fused_loops":
            d["mapper"]["max_fused_loops"] = rnd.choice([0, 1])
        if relax == "more_fused_per_rank":
            d["mapper"]["max_fused_loops_per_rank_variable"] = 1
        cases.append({"class": relax, "desc": d, "relax": relax, "metric": rnd.choice(["ENERGY", "LATENCY", "ENERGY_DELAY_PRODUCT"]),
                      "r": rnd.random()})
    return cases


def relaxed(d, relax, r):
    d2 = copy.deepcopy(d)
    inner = d2["arch"]["mems"][1]
    if relax == "bigger_memory":
        for m in d2["arch"]["mems"][1:]:
            if m["size"] != "inf":
                m["size"] = m["size"] * (2 if r < 0.5 else 4)
    elif relax == "memory_inf":
        for m in d2["arch"]["mems"][1:]:
            m["size"] = "inf"
    elif relax == "smaller_keep":
        inner["keep"] = "~MainMemory" if len(d["workload"]["einsums"]) > 1 else "Nothing"
    elif relax == "larger_may_keep":
        inner["may_keep"] = "All"
    elif relax == "more_fused_loops":
        d2["mapper"]["max_fused_loops"] = d["mapper"]["max_fused_loops"] + (1 if r < 0.5 else 2)
    elif relax == "more_fused_per_rank":
        d2["mapper"]["max_fused_loops_per_rank_variable"] = 2
    elif relax == "imperfect":
        d2["mapper"]["explore_imperfect_temporal_loops"] = True
    return d2


def run_case(case):
    from .. import harness as H
    d, relax, metric = case["desc"], case["relax"], case["metric"]
    d2 = relaxed(d, relax, case.get("r", 0.3))
    viol = []

    def opt(desc):
        try:
            rows = H.result_rows(H.run_mapper(desc, metric), with_tree=False)
            return min(H.objective(r, metric) for r in rows)
        except H.NoMapping:
            return None
    a, b = opt(d), opt(d2)
    counters = {"pairs_compared": 1}
    if a is not None and b is None:
        viol.append({"sig": f"relaxation_loses_all_mappings:{relax}", "witness": {"original_optimum": a, "metric": metric}})
    elif a is not None and b is not None:
        if b > a and not H.close(a, b):
            viol.append({"sig": f"relaxation_worsens_optimum:{relax}", "witness": {"metric": metric, "original_optimum": a, "relaxed_optimum": b,
                                                                                  "ratio": b / a if a else None}})
        if b < a and not H.close(a, b):
            counters["relaxation_strictly_improved"] = 1
    nt = [json.dumps([d["class"], d["workload"]["ranks"], relax, metric, [m["size"] for m in d["arch"]["mems"]]])] if (a is not None and b is not None) else []
    return {"status": "violation" if viol else "ok", "violations": viol, "nontrivial": nt, "counters": counters,
            "sample": {"spec": gs.summary(d), "relaxation": relax, "metric": metric, "original_optimum": a, "relaxed_optimum": b}}
