"""C08 - tile-shape exploration prunes without losing any Pareto-optimal choice."""
import itertools
import json
import random

from ..gen import specs as gs
from .c07 import template_nodes

ID = "C08"
LEVEL = "exploration"
CHUNK = 1
CASE_TIMEOUT = 1500
REQUIRED_COUNTERS = ["templates_compared", "exhaustive_assignments_evaluated"]
RULE = ("templates of single-Einsum specs and of the first/last Einsum of 2-Einsum specs (so that fused-loop symbols "
        "exist), metrics ENERGY / LATENCY / EDP / ENERGY|LATENCY, finite and infinite memories, zero tolerance, perfect "
        "factorisation; wrappers on _make_tile_shapes / run_model / get_tile_shape_choices record, per template, the "
        "symbolic formulas, the fused (kept) symbols and the frame the pruned enumeration produced (inputs are snapshotted "
        "at call time). The reference enumerates EVERY perfectly factorising assignment of the template's tile-shape "
        "symbols, evaluates the recorded formulas (compiled as the code does), keeps the valid ones (every usage formula "
        "<= 1) and Pareto-filters objective and reservation columns within equal fused-loop tile shapes with the O(n^2) "
        "reference filter; the frame is filtered the same way; the two sets of vectors must be equal. Templates with more "
        "than 4000 assignments are skipped and counted. non-trivial = template with >= 2 symbols and an exhaustive front "
        "smaller than the valid set; distinct = (template, metrics)")
ASSUMPTIONS = ["faithfulness of the recorded formulas is C07's business", "min_usage (try-best fallback), loop_bounds, "
               "max_fused_loops limits and imperfect factorisation are not generated here",
               "float32 tolerance 2^-16 when matching vectors"]
TECHNIQUE = "runtime monitoring: exhaustive divisor-chain enumeration over recorded template formulas as reference for the pruned enumeration's output"


def gen_cases(tier, seed):
    rnd = random.Random(f"C08-{seed}")
    n = 24 if tier == "quick" else 300
    cases = []
    for i in range(n):
        wk = rnd.choice(["mm1", "mm1", "mv1", "chain2", "mvchain2"])
        d = gs.gen_spec(rnd, wk, levels=2 if wk == "chain2" else rnd.choice([2, 2, 3]), size_class=rnd.choice(["inf", "generous", "tight", "tight"]))
        if wk in ("mm1", "mv1"):
            for rv in d["workload"]["ranks"]:
                d["workload"]["ranks"][rv] = rnd.choice([4, 6, 8, 9, 12, 2, 3])
        cases.append({"class": wk + "/" + d["arch"]["size_class"], "desc": d,
                      "metrics": rnd.choice(["ENERGY", "LATENCY", "ENERGY_DELAY_PRODUCT", "ENERGY|LATENCY"]), "seed": rnd.randrange(2**31)})
    return cases


def chains(tmpl, ranks, fixed_last=True):
    per_rv = {}
    for n in tmpl:
        if n["t"] == "T":
            per_rv.setdefault(n["rv"], []).append(n["tile"])
    options = []
    for rv, tiles in per_rv.items():
        def rec(i, cur, acc):
            if i == len(tiles):
                yield list(acc)
                return
            t = tiles[i]
            if not isinstance(t, str):
                if cur % t == 0 and t <= cur:
                    yield from rec(i + 1, t, acc)
                return
            for dd in range(1, cur + 1):
                if cur % dd == 0:
                    yield from rec(i + 1, dd, acc + [(t, dd)])
        options.append(list(rec(0, ranks[rv], [])))
    n = 1
    for o in options:
        n *= len(o)
    return n, options


def run_case(case):
    import numpy as np
    from .. import harness as H
    from ..ref.pareto import front
    from accelforge.mapper.FFM._make_pmappings.make_pmappings_from_templates import make_tile_shapes as mts
    from accelforge.util._mathfuncs import NUMPY_FLOAT_TYPE
    d, metrics = case["desc"], case["metrics"]
    rnd = random.Random(case["seed"])
    counters, viol, nontriv = {}, [], []

    def bump(k, n=1):
        counters[k] = counters.get(k, 0) + n
    recorded, cur = [], {}
    orig_inner, orig_run, orig_choices = mts._make_tile_shapes, mts.run_model, mts.get_tile_shape_choices

    def run_model_w(job):
        out = orig_run(job)
        cur["model"] = out
        return out

    def choices_w(*a, **k):
        cur["keep"] = [str(s) for s in (k.get("keep_symbols") or ())]
        cur["loop_groups"] = [(float(lim), [str(x) for x in grp]) for lim, grp in (k.get("max_loop_check_groups") or ())]
        cur["n_objectives"] = len(k.get("objectives") or (a[0] if a else ()))
        return orig_choices(*a, **k)

    def inner_w(job):
        cur.clear()
        df, t2m = orig_inner(job)
        try:
            symbols, symbolic_df, per_mem, usage_df, _, actions_df = cur["model"]
            recorded.append({"tmpl": template_nodes(job.mapping), "symbols": list(symbols), "symbolic": dict(symbolic_df),
                             "per_mem": dict(per_mem), "usage": dict(usage_df), "keep": list(cur.get("keep", [])),
                             "loop_groups": list(cur.get("loop_groups", [])),
                             "track_only": [str(x) for x in getattr(job, "memories_track_pmappings_only", [])],
                             "df": df.copy(), "einsum": str(job.einsum_name), "ranks": dict(job.rank_variable_bounds)})
        except Exception as ex:
            bump("recorder_failed:" + type(ex).__name__)
        return df, t2m
    mts._make_tile_shapes, mts.run_model, mts.get_tile_shape_choices = inner_w, run_model_w, choices_w
    try:
        try:
            H.run_mapper(d, metrics)
        except H.NoMapping:
            pass
    finally:
        mts._make_tile_shapes, mts.run_model, mts.get_tile_shape_choices = orig_inner, orig_run, orig_choices
    bump("templates_recorded", len(recorded))
    rnd.shuffle(recorded)
    sample = None
    tol = 2.0 ** -16

    def near(x, y):
        return all(abs(p - q) <= tol * max(abs(p), abs(q)) + 1e-7 for p, q in zip(x, y))
    for rec in recorded[:30]:
        symbols = rec["symbols"]
        if not symbols or any(n["t"] == "?" for n in rec["tmpl"]):
            continue
        ranks = {str(k): int(v) for k, v in rec["ranks"].items()}
        total, options = chains(rec["tmpl"], ranks)
        if total > 4000:
            bump("templates_skipped_over_budget")
            continue
        import sympy
        df = rec["df"]
        # objective vector: the Total columns the frame carries plus, per memory that is tracked as an objective, its
        # usage formula (the granularity at which tile-shape exploration itself prunes; reservations of memories
        # tracked for validity only are no objective of this template's filter)
        cols = [c for c in df.columns if c.startswith("Total" + H.SEP)]
        src = {}
        for c in cols:
            if c in rec["symbolic"]:
                src[c] = sympy.sympify(rec["symbolic"][c])
        if "Total<SEP>energy" in cols and "Total<SEP>energy" not in src:
            src["Total<SEP>energy"] = sympy.sympify(rec["symbolic"]["Total<SEP>dynamic_energy"]) + sympy.sympify(rec["symbolic"].get("Total<SEP>leak_energy", 0))
        for k, v in rec["per_mem"].items():
            if k.split(H.SEP)[-1] not in rec.get("track_only", []):
                cols.append(k)
                src[k] = sympy.sympify(v)
        if set(src) != set(cols):
            bump("templates_with_unmapped_columns")
            continue
        try:
            comp = mts.compile_dict(symbols, src)
            comp_valid = mts.compile_dict(symbols, {k: sympy.sympify(v) for k, v in {**rec["per_mem"], **rec["usage"]}.items()})
        except Exception as ex:
            bump("compile_failed:" + type(ex).__name__)
            continue
        names = [s.name for s in symbols]
        asgs = [dict(x for part in c for x in part) for c in itertools.product(*options)]
        asgs = [a for a in asgs if set(a) == set(names)]
        if not asgs:
            continue
        arr = np.array([[a[nm] for nm in names] for a in asgs], dtype=NUMPY_FLOAT_TYPE)
        # enclosing size of every symbolic loop (previous loop over the same rank variable, else the bound)
        outer_of = {}
        last = {}
        for n in rec["tmpl"]:
            if n["t"] == "T":
                if isinstance(n["tile"], str):
                    outer_of[n["tile"]] = last.get(n["rv"], ranks[n["rv"]])
                last[n["rv"]] = n["tile"]
        try:
            valid = np.ones(len(asgs), dtype=bool)
            at_capacity = np.zeros(len(asgs), dtype=bool)
            for k, f in comp_valid.items():
                v = np.broadcast_to(np.asarray(f(*arr.T), dtype=float), (len(asgs),))
                valid &= v <= 1 + 1e-6
                at_capacity |= (v > 1.0) & (v <= 1 + 1e-6)      # float32 rounding above an exact fit
            # declared limits on the number of fused loops (a loop exists iff its tile shape differs from the enclosing one)
            for lim, grp in rec.get("loop_groups", []):
                grp = [g for g in grp if g in names]
                if len(grp) <= lim:
                    continue
                for i, a in enumerate(asgs):
                    nloops = 0
                    for g in grp:
                        o = outer_of.get(g)
                        o = a[o] if isinstance(o, str) else o
                        if o is not None and a[g] != o:
                            nloops += 1
                    if nloops > lim:
                        valid[i] = False
            vals = {c: np.broadcast_to(np.asarray(f(*arr.T), dtype=float), (len(asgs),)) for c, f in comp.items()}
        except Exception as ex:
            bump("formula_evaluation_failed:" + type(ex).__name__)
            continue
        bump("exhaustive_assignments_evaluated", len(asgs))
        keep = [k for k in rec["keep"] if k in names]
        ex_groups, ex_groups_strict = {}, {}
        for i, a in enumerate(asgs):
            if valid[i]:
                ex_groups.setdefault(tuple(a[k] for k in keep), []).append(tuple(float(vals[c][i]) for c in cols))
                if not at_capacity[i]:
                    ex_groups_strict.setdefault(tuple(a[k] for k in keep), []).append(tuple(float(vals[c][i]) for c in cols))
        df_groups = {}
        rows_arr = np.array([[float(row[nm]) for nm in names] for _, row in df.iterrows()], dtype=NUMPY_FLOAT_TYPE).reshape(len(df), len(names))
        row_vals = {c: np.broadcast_to(np.asarray(comp[c](*rows_arr.T), dtype=float), (len(rows_arr),)) for c in cols}
        for i, (_, row) in enumerate(df.iterrows()):
            df_groups.setdefault(tuple(int(row[k]) for k in keep), []).append(tuple(float(row_vals[c][i]) for c in cols))
        bump("templates_compared")
        n_valid = sum(len(v) for v in ex_groups.values())
        ex_front = {g: front(v) for g, v in ex_groups.items()}
        df_front = {g: front(v) for g, v in df_groups.items()}
        lost, extra = [], []
        for g, fr in ex_front.items():
            other = df_front.get(g, [])
            for v in fr:
                if not any(near(v, o) for o in other):
                    lost.append((g, v))
        for g, fr in df_front.items():
            other = ex_front.get(g, [])
            for v in fr:
                if not any(near(v, o) for o in other):
                    extra.append((g, v))
        if lost or extra:
            # is the difference explained by assignments that fill a memory EXACTLY being dropped?
            strict_front = {g: front(v) for g, v in ex_groups_strict.items()}
            same_as_strict = all(all(any(near(v, o) for o in df_front.get(g, [])) for v in fr) for g, fr in strict_front.items()) and \
                all(all(any(near(v, o) for o in strict_front.get(g, [])) for v in fr) for g, fr in df_front.items())
            if same_as_strict and at_capacity.any():
                kind = "exact_fit_dropped_by_float32_rounding"
            elif lost and not extra:
                kind = "lost_pareto_point"
            elif extra and not lost:
                # a frame point better than / unknown to the exhaustive enumeration: the reference missed something
                kind = "frame_has_point_outside_exhaustive_front"
            else:
                kind = "fronts_differ"
            viol.append({"sig": kind if kind.startswith("exact_fit") else f"{kind}:{'fused' if keep else 'unfused'}",
                         "witness": {"einsum": rec["einsum"], "metrics": metrics, "columns": cols, "kept_symbols": keep, "lost": lost[:4], "extra": extra[:4],
                                     "valid_assignments": n_valid, "frame_rows": len(df), "template": rec["tmpl"], "ranks": ranks}})
        if len(symbols) >= 2 and sum(len(v) for v in ex_front.values()) < n_valid:
            nontriv.append(json.dumps([rec["tmpl"], metrics], sort_keys=True))
            if sample is None:
                sample = {"template": rec["tmpl"], "columns": cols, "valid_assignments": n_valid,
                          "exhaustive_front_size": sum(len(v) for v in ex_front.values()), "frame_rows": len(df)}
    seen_s, keep_v = set(), []
    for v in viol:
        if v["sig"] not in seen_s:
            seen_s.add(v["sig"])
            keep_v.append(v)
    return {"status": "violation" if keep_v else "ok", "violations": keep_v, "nontrivial": nontriv, "counters": counters, "sample": sample}
