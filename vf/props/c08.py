"""C08 - tile-shape exploration prunes without losing any Pareto-optimal choice."""
import itertools
import json
import operator
import random

from ..gen import specs as gs

ID = "C08"
LEVEL = "exploration"
CHUNK = 1
CASE_TIMEOUT = 2400
REQUIRED_COUNTERS = ["templates_compared", "exhaustive_assignments_evaluated", "templates_with_partial_pruning_compared"]
RULE = ("templates of single-Einsum specs and of the first/last Einsum of 2-Einsum specs (so that fused-loop symbols "
        "exist), metrics ENERGY / LATENCY / EDP / ENERGY|LATENCY, finite and infinite memories, zero tolerance, perfect "
        "factorisation; classes: small bounds, LARGE3 (three levels, power-of-two bounds 32..128, both buffers binding), LARGE bounds (24..72: templates with >= 1000 partial assignments, "
        "the threshold above which the enumeration prunes partially enumerated assignments symbolically) and SPATIAL "
        "(a Container fanout with loop_bounds incl. product>= / >= forms). Wrappers on _make_tile_shapes / run_model / "
        "get_tile_shape_choices record, per template, the symbolic formulas, the fused (kept) symbols, the loop-count "
        "limits and the frame the pruned enumeration produced (snapshotted at call time). The reference enumerates EVERY "
        "perfectly factorising assignment of the template's tile-shape symbols (vectorised), evaluates the recorded "
        "formulas compiled as the code does, keeps the valid ones (usage formulas <= 1, spatial fanout, the spec's "
        "loop_bounds evaluated on the spatial loops, fused-loop limits) and compares with the frame inside every group of "
        "equal fused-loop tile shapes: every valid assignment must be weakly dominated by a frame row, and no frame row "
        "may be strictly dominated by a valid assignment (together: equal Pareto fronts). Templates above 3e6 assignments "
        "are skipped and counted. non-trivial = template with >= 2 symbols and a front smaller than the valid set; "
        "distinct = (template, metrics)")
ASSUMPTIONS = ["faithfulness of the recorded formulas is C07's business",
               "objective vector = the Total columns plus the usage formula of every memory tracked as an objective "
               "(the granularity at which tile-shape exploration prunes)",
               "min_usage (try-best fallback) and imperfect factorisation are not generated here",
               "float32 formulas are evaluated by the same compiled functions on both sides; vectors compared at 1e-6 relative"]
TECHNIQUE = "runtime monitoring: exhaustive (vectorised) divisor-chain enumeration over recorded template formulas as reference for the pruned enumeration's output"

LARGE = [24, 36, 48, 60, 72]


def gen_cases(tier, seed):
    rnd = random.Random(f"C08-{seed}")
    n = 30 if tier == "quick" else 240
    cases = []
    for i in range(n):
        cls = ["small", "large3", "large", "spatial", "small", "large", "spatial_large", "small", "spatial"][i % 9]
        if cls == "small":
            wk = rnd.choice(["mm1", "mm1", "mv1", "chain2", "mvchain2"])
            d = gs.gen_spec(rnd, wk, levels=2 if wk == "chain2" else rnd.choice([2, 2, 3]), size_class=rnd.choice(["inf", "generous", "tight", "tight"]))
            if wk in ("mm1", "mv1"):
                for rv in d["workload"]["ranks"]:
                    d["workload"]["ranks"][rv] = rnd.choice([4, 6, 8, 9, 12, 2, 3])
        elif cls == "large3":
            # three levels, power-of-two bounds, both buffers binding: usage formulas are sums of products of an outer
            # and an inner tile shape (s0*s1 + s0*s2 + s2*s3), so partially enumerated assignments carry terms whose
            # unknown factors differ
            wk = "mm1"
            d = gs.gen_spec(rnd, wk, levels=3, size_class="tight", costs=rnd.choice(["tradeoff", "tradeoff", "random"]))
            for rv in d["workload"]["ranks"]:
                d["workload"]["ranks"][rv] = rnd.choice([32, 64, 128])
            bits = d["workload"]["bits"]
            m0, m1, m2 = d["arch"]["mems"]
            m0.update(keep="All", may_keep="All")
            m1.update(size=bits * rnd.choice([1024, 2048, 4096, 8192]), keep=rnd.choice(["Nothing", "Nothing", "Inputs"]), may_keep="All")
            m2.update(size=bits * rnd.choice([32, 64, 128, 256]), keep=rnd.choice(["All", "All", "Nothing"]), may_keep="All")
        elif cls == "large":
            wk = rnd.choice(["mm1", "mv1", "mm1"])
            d = gs.gen_spec(rnd, wk, levels=2, size_class=rnd.choice(["inf", "tight", "tight"]))
            for rv in d["workload"]["ranks"]:
                d["workload"]["ranks"][rv] = rnd.choice(LARGE)
            if d["arch"]["size_class"] == "tight":
                sizes = sorted(gs.tensor_sizes(d["workload"]).values())
                d["arch"]["mems"][1]["size"] = rnd.randint(max(8, sizes[0] // 8), max(16, sizes[-1])) * d["workload"]["bits"]
        else:
            wk = "mm1"
            big = cls == "spatial_large"
            # spatial_large: a three-level hierarchy with the fanout between the two buffers and bounds large enough that
            # templates reach >= 1000 partially enumerated assignments WITH a lower-bound product constraint pending
            d = gs.gen_spec(rnd, wk, levels=3 if big else 2, size_class=rnd.choice(["inf", "tight"]) if not big else "inf",
                            costs="tradeoff" if big else None)
            for rv in d["workload"]["ranks"]:
                d["workload"]["ranks"][rv] = rnd.choice([8, 12, 16, 24]) if not big else rnd.choice([16, 24, 32])
            rvs = sorted(d["workload"]["ranks"])
            sp = {"name": "X", "fanout": rnd.choice([4, 6, 8]) if not big else 4}
            kind = rnd.choice(["prod_ge", "ge", "le", "prod_le", "only"]) if not big else "prod_ge3"
            a_, b_ = rnd.sample(rvs, 2)
            if kind == "prod_ge3":
                sp["loop_bounds"] = [{"expression": " | ".join(rvs if rnd.random() < 0.6 else [a_, b_]), "operator": rnd.choice(["product>=", "product>=", "product>"]),
                                      "value": rnd.choice([4, 4, 2])}]
            elif kind == "prod_ge":
                sp["loop_bounds"] = [{"expression": f"{a_} | {b_}", "operator": "product>=", "value": rnd.choice([2, 4])}]
            elif kind == "ge":
                sp["loop_bounds"] = [{"expression": a_, "operator": ">=", "value": 2}]
            elif kind == "le":
                sp["loop_bounds"] = [{"expression": a_, "operator": "<=", "value": 2}]
            elif kind == "prod_le":
                sp["loop_bounds"] = [{"expression": f"{a_} | {b_}", "operator": "product<=", "value": rnd.choice([2, 4])}]
            else:
                sp["loop_bounds"] = [{"expression": "~" + a_, "operator": "==", "value": 1}]
            sp2 = None
            if rnd.random() < 0.5:
                sp2 = {"name": "Y", "fanout": rnd.choice([2, 4])}
            if big:
                d["arch"]["mems"].insert(2, {"kind": "Container", "name": "PE", "spatial": [sp]})
            else:
                d["arch"]["mems"].append({"kind": "Container", "name": "PE", "spatial": [sp] + ([sp2] if sp2 else [])})
            if d["arch"]["size_class"] == "tight":
                sizes = sorted(gs.tensor_sizes(d["workload"]).values())
                d["arch"]["mems"][1]["size"] = rnd.randint(max(8, sizes[0] // 4), max(16, sizes[-1])) * d["workload"]["bits"]
        cases.append({"class": cls + "/" + wk, "desc": d,
                      "metrics": rnd.choice(["ENERGY", "LATENCY", "ENERGY_DELAY_PRODUCT", "ENERGY|LATENCY"]) if cls not in ("spatial_large", "large3")
                      else ("ENERGY" if cls == "spatial_large" else rnd.choice(["ENERGY", "ENERGY", "LATENCY"])),
                      "seed": rnd.randrange(2**31)})
    return cases


def template_nodes(mapping):
    out = []
    for n in mapping.nodes:
        k = type(n).__name__
        if k == "Reservation":
            continue
        if k in ("Storage", "Toll"):
            out.append({"t": "S", "tensors": [str(x) for x in n.tensors], "comp": str(n.component)})
        elif k in ("Temporal", "Spatial"):
            ts = n.tile_shape
            nd = {"t": "T" if k == "Temporal" else "P", "rv": str(n.rank_variable), "tile": (int(ts) if _is_num(ts) else str(ts))}
            if k == "Spatial":
                nd["name"], nd["comp"] = str(n.name), str(n.component)
            if getattr(n, "initial_tile_shape", None) is not None and not _is_num(getattr(n, "initial_tile_shape")):
                nd["initial"] = str(n.initial_tile_shape)
            out.append(nd)
        elif k == "Compute":
            out.append({"t": "C", "einsum": str(n.einsum), "comp": str(n.component)})
        else:
            out.append({"t": "?", "kind": k})
    return out


def _is_num(x):
    try:
        if hasattr(x, "free_symbols"):
            return not x.free_symbols
        float(x)
        return True
    except Exception:
        return False


def chain_options(tmpl, ranks):
    """Per rank variable: list of assignments [(symbol, value), ...] of its symbolic loops (outer -> inner)."""
    per_rv = {}
    for n in tmpl:
        if n["t"] in ("T", "P"):
            per_rv.setdefault(n["rv"], []).append(n["tile"])
    options = []
    for rv, tiles in per_rv.items():
        def rec(i, cur, acc):
            if i == len(tiles):
                yield tuple(acc)
                return
            t = tiles[i]
            if not isinstance(t, str):
                if t <= cur and cur % t == 0:
                    yield from rec(i + 1, t, acc)
                return
            for dd in range(1, cur + 1):
                if cur % dd == 0:
                    yield from rec(i + 1, dd, acc + [(t, dd)])
        options.append(list(rec(0, ranks[rv], [])))
    n = 1
    for o in options:
        n *= len(o)
    return n, options


def run_case(case):
    import numpy as np
    import sympy
    from .. import harness as H
    from accelforge.mapper.FFM._make_pmappings.make_pmappings_from_templates import make_tile_shapes as mts
    from accelforge.util._mathfuncs import NUMPY_FLOAT_TYPE
    d, metrics = case["desc"], case["metrics"]
    rnd = random.Random(case["seed"])
    counters, viol, nontriv = {}, [], []

    def bump(k, n=1):
        counters[k] = counters.get(k, 0) + n
    recorded, cur = [], {}
    orig_inner, orig_run, orig_choices = mts._make_tile_shapes, mts.run_model, mts.get_tile_shape_choices

    def run_model_w(job):
        out = orig_run(job)
        cur["model"] = out
        return out

    def choices_w(*a, **k):
        cur["keep"] = [str(s) for s in (k.get("keep_symbols") or ())]
        cur["loop_groups"] = [(float(lim), [str(x) for x in grp]) for lim, grp in (k.get("max_loop_check_groups") or ())]
        return orig_choices(*a, **k)

    def inner_w(job):
        cur.clear()
        df, t2m = orig_inner(job)
        try:
            symbols, symbolic_df, per_mem, usage_df, _, actions_df = cur["model"]
            recorded.append({"tmpl": template_nodes(job.mapping), "symbols": list(symbols), "symbolic": dict(symbolic_df),
                             "per_mem": dict(per_mem), "usage": dict(usage_df), "keep": list(cur.get("keep", [])),
                             "loop_groups": list(cur.get("loop_groups", [])),
                             "track_only": [str(x) for x in getattr(job, "memories_track_pmappings_only", [])],
                             "df": df.copy(), "einsum": str(job.einsum_name), "ranks": dict(job.rank_variable_bounds)})
        except Exception as ex:
            bump("recorder_failed:" + type(ex).__name__)
        return df, t2m
    mts._make_tile_shapes, mts.run_model, mts.get_tile_shape_choices = inner_w, run_model_w, choices_w
    try:
        try:
            H.run_mapper(d, metrics, timeout=600)
        except H.NoMapping:
            pass
    finally:
        mts._make_tile_shapes, mts.run_model, mts.get_tile_shape_choices = orig_inner, orig_run, orig_choices
    bump("templates_recorded", len(recorded))
    rnd.shuffle(recorded)
    # prefer templates with many assignments (those exercise partial pruning), keep some small ones
    sized = []
    for rec in recorded:
        if not rec["symbols"] or any(n["t"] == "?" or "initial" in n for n in rec["tmpl"]):
            continue
        ranks = {str(k): int(v) for k, v in rec["ranks"].items()}
        total, options = chain_options(rec["tmpl"], ranks)
        sized.append((total, rec, ranks, options))
    sized.sort(key=lambda x: -x[0])
    chosen = [s for s in sized if s[0] <= 3_000_000][:12] + [s for s in sized if s[0] < 1000][:14]
    skipped = sum(1 for s in sized if s[0] > 3_000_000)
    if skipped:
        bump("templates_skipped_over_budget", skipped)
    sample = None
    seen_t = set()
    spatial_specs = {(m["name"], sp["name"]): sp for m in d["arch"]["mems"] for sp in (m.get("spatial") or [])}
    for total, rec, ranks, options in chosen:
        if id(rec) in seen_t or total == 0:
            continue
        seen_t.add(id(rec))
        symbols = rec["symbols"]
        names = [s.name for s in symbols]
        df = rec["df"]
        cols = [c for c in df.columns if c.startswith("Total" + H.SEP)]
        src = {}
        for c in cols:
            if c in rec["symbolic"]:
                src[c] = sympy.sympify(rec["symbolic"][c])
        if "Total<SEP>energy" in cols and "Total<SEP>energy" not in src:
            src["Total<SEP>energy"] = sympy.sympify(rec["symbolic"]["Total<SEP>dynamic_energy"]) + sympy.sympify(rec["symbolic"].get("Total<SEP>leak_energy", 0))
        for k, v in rec["per_mem"].items():
            if k.split(H.SEP)[-1] not in rec.get("track_only", []):
                cols.append(k)
                src[k] = sympy.sympify(v)
        if set(src) != set(cols):
            bump("templates_with_unmapped_columns")
            continue
        try:
            comp = mts.compile_dict(symbols, src)
            comp_valid = mts.compile_dict(symbols, {k: sympy.sympify(v) for k, v in {**rec["per_mem"], **rec["usage"]}.items()})
        except Exception as ex:
            bump("compile_failed:" + type(ex).__name__)
            continue
        # ---- all assignments, vectorised
        sym_cols = {}
        idx = np.indices([len(o) for o in options]).reshape(len(options), -1)
        for oi, opts in enumerate(options):
            if not opts or not opts[0]:
                continue
            for pos in range(len(opts[0])):
                sname = opts[0][pos][0]
                vals = np.array([o[pos][1] for o in opts], dtype=np.int64)
                sym_cols[sname] = vals[idx[oi]]
        if set(sym_cols) != set(names):
            bump("templates_with_unmapped_symbols")
            continue
        N = idx.shape[1]
        arr = [sym_cols[nm].astype(NUMPY_FLOAT_TYPE) for nm in names]

        def ev(f):
            return np.broadcast_to(np.asarray(f(*arr), dtype=float), (N,))
        try:
            valid = np.ones(N, dtype=bool)
            above_one = np.zeros(N, dtype=bool)
            for k, f in comp_valid.items():
                v = ev(f)
                valid &= v <= 1 + 1e-6
                above_one |= (v > 1.0) & (v <= 1 + 1e-6)
            vals = {c: ev(f) for c, f in comp.items()}
        except Exception as ex:
            bump("formula_evaluation_failed:" + type(ex).__name__)
            continue
        # enclosing size of each symbolic loop
        outer_of, last = {}, {}
        for n in rec["tmpl"]:
            if n["t"] in ("T", "P"):
                if isinstance(n["tile"], str):
                    outer_of[n["tile"]] = last.get(n["rv"], ranks[n["rv"]])
                last[n["rv"]] = n["tile"]

        def col_of(x):
            return sym_cols[x] if isinstance(x, str) else np.full(N, x, dtype=np.int64)
        # fused-loop limits
        for lim, grp in rec.get("loop_groups", []):
            grp = [g for g in grp if g in sym_cols]
            if len(grp) <= lim:
                continue
            nloops = np.zeros(N, dtype=np.int64)
            for g in grp:
                nloops += (col_of(outer_of[g]) != sym_cols[g]).astype(np.int64)
            valid &= nloops <= lim
        # the spec's loop_bounds on the spatial loops of each fanout dimension
        per_dim, lastp = {}, {}
        for n in rec["tmpl"]:
            if n["t"] in ("T", "P"):
                outer = lastp.get(n["rv"], ranks[n["rv"]])
                if n["t"] == "P":
                    per_dim.setdefault((n["comp"], n["name"]), []).append((n["rv"], col_of(outer) // np.maximum(col_of(n["tile"]), 1)))
                lastp[n["rv"]] = n["tile"]
        rvs_e = sorted({n["rv"] for n in rec["tmpl"] if n["t"] in ("T", "P")} | set(ranks))
        ops = {"==": operator.eq, "<=": operator.le, ">=": operator.ge, "<": operator.lt, ">": operator.gt}
        for key, loops in per_dim.items():
            sp = spatial_specs.get(key)
            if not sp:
                continue
            for lb in sp.get("loop_bounds") or []:
                from ..ref.validator import _eval_expr
                env_rv = {rv: frozenset([rv]) for rv in rvs_e}
                env_rv["All"] = frozenset(rvs_e)
                try:
                    target = _eval_expr(lb["expression"], env_rv, frozenset(rvs_e))
                except Exception:
                    continue
                bounds = [it for rv, it in loops if rv in target]
                op = lb["operator"]
                if op.startswith("product"):
                    pr = np.ones(N, dtype=np.int64)
                    for b in bounds:
                        pr = pr * b
                    valid &= ops[op[len("product"):]](pr, lb["value"])
                else:
                    for b in bounds:
                        valid &= ops[op](b, lb["value"])
        bump("exhaustive_assignments_evaluated", N)
        bump("templates_compared")
        if total >= 1000:
            bump("templates_with_partial_pruning_compared")
        keep = [k for k in rec["keep"] if k in names]
        # ---- frame rows, evaluated with the same compiled formulas
        rows_arr = np.array([[float(row[nm]) for nm in names] for _, row in df.iterrows()], dtype=NUMPY_FLOAT_TYPE).reshape(len(df), len(names))
        R = len(rows_arr)
        rvals = np.stack([np.broadcast_to(np.asarray(comp[c](*rows_arr.T), dtype=float), (R,)) for c in cols], axis=1) if R else np.zeros((0, len(cols)))
        rkeys = np.stack([rows_arr[:, names.index(k)] for k in keep], axis=1) if keep and R else np.zeros((R, 0))
        V = np.stack([vals[c] for c in cols], axis=1)
        K = np.stack([sym_cols[k].astype(float) for k in keep], axis=1) if keep else np.zeros((N, 0))
        tol = 1e-6

        def check(valid_mask):
            """lost: a valid assignment not weakly dominated by any frame row of its group (the frame is not
            Pareto-filtered yet at this point, so a dominated frame row is fine)."""
            vi = np.nonzero(valid_mask)[0]
            covered = np.zeros(len(vi), dtype=bool)
            for r in range(R):
                same = np.all(K[vi] == rkeys[r], axis=1) if keep else np.ones(len(vi), dtype=bool)
                le = np.all(rvals[r] <= V[vi] * (1 + tol) + 1e-9, axis=1)
                covered |= same & le
            return int(vi[np.nonzero(~covered)[0][0]]) if (~covered).any() else None
        # every frame row must itself be a valid assignment
        A = np.stack([sym_cols[nm] for nm in names], axis=1)
        valid_set = {tuple(int(x) for x in row) for row in A[valid]} if valid.sum() <= 2_000_000 else None
        bad_row = None
        if valid_set is not None:
            for r in range(R):
                if tuple(int(x) for x in rows_arr[r]) not in valid_set:
                    bad_row = r
                    break
        lost_i = check(valid)
        if lost_i is not None or bad_row is not None:
            kind = None
            if lost_i is not None and bad_row is None and above_one.any() and check(valid & ~above_one) is None:
                kind = "exact_fit_dropped_by_float32_rounding"
            if kind is None:
                kind = ("lost_pareto_point" if lost_i is not None else "frame_contains_invalid_assignment")
                kind += ":" + ("fused" if keep else "unfused") + (":spatial" if per_dim else "") + (":large" if total >= 1000 else "")
            w = {"einsum": rec["einsum"], "metrics": metrics, "columns": cols, "kept_symbols": keep, "assignments": int(N), "valid": int(valid.sum()),
                 "frame_rows": R, "template": rec["tmpl"], "ranks": ranks}
            if lost_i is not None:
                w["lost"] = {"assignment": {nm: int(sym_cols[nm][lost_i]) for nm in names}, "vector": [float(x) for x in V[lost_i]]}
                w["frame"] = [{"assignment": {nm: int(rows_arr[j][i]) for i, nm in enumerate(names)}, "vector": [float(x) for x in rvals[j]]} for j in range(min(R, 3))]
            if bad_row is not None:
                w["invalid_frame_row"] = {nm: int(rows_arr[bad_row][i]) for i, nm in enumerate(names)}
            viol.append({"sig": kind, "witness": w})
        nvalid = int(valid.sum())
        if len(symbols) >= 2 and R < nvalid:
            nontriv.append(json.dumps([rec["tmpl"], metrics], sort_keys=True))
            if sample is None or (total >= 1000 and sample.get("assignments", 0) < 1000):
                sample = {"template": rec["tmpl"], "columns": cols, "assignments": int(N), "valid_assignments": nvalid, "frame_rows": R}
    seen_s, keep_v = set(), []
    for v in viol:
        if v["sig"] not in seen_s:
            seen_s.add(v["sig"])
            keep_v.append(v)
    return {"status": "violation" if keep_v else "ok", "violations": keep_v, "nontrivial": nontriv, "counters": counters, "sample": sample}
