"""C14 - join-stage accelerations never change the result."""
import json
import os
import random

from ..gen import specs as gs

ID = "C14"
LEVEL = "exploration"
CHUNK = 1
CASE_TIMEOUT = 1500
REQUIRED_COUNTERS = ["fronts_compared", "dirty_join_rounds_observed", "optimality_filter_calls_observed"]
RULE = ("2-3 Einsum specs of the small-spec family (chains, fan-in, tight / generous / infinite buffers, trade-off cost "
        "tables) x metric sets {ENERGY, LATENCY, EDP, ENERGY|LATENCY, ENERGY|LATENCY|RESOURCE_USAGE}; the front returned by "
        "the staged join (main.join_pmappings: dirty joins under resource/objective thresholds, optimality-threshold "
        "filtering, look-ahead, untracked memories, combined reservations) is compared with one exact join: "
        "clean_compress_and_join_pmappings(for_model=True) on pmappings regenerated with RESOURCE_USAGE tracked for every "
        "memory, _combine_reservations off and look-ahead off (hook), projected on the requested objectives, filtered to "
        "usage <= 1 and Pareto-filtered by the reference filter. The staged run's internal events (threshold rounds, "
        "retries after oversubscription, rows removed by the optimality filter) are recorded by wrappers. non-trivial = "
        "the exact join has >= 2 candidate rows; distinct = (spec, metric set)")
ASSUMPTIONS = ["the exact path is the code's own direct join with every acceleration named by the property switched off",
               "float32 tolerance 2^-16 relative when matching front points"]
TECHNIQUE = "runtime monitoring: differential check of the staged join against the unaccelerated join on recorded pmappings, with an event log of the accelerations actually exercised"


def gen_cases(tier, seed):
    rnd = random.Random(f"C14-{seed}")
    n = 32 if tier == "quick" else 200
    mets = ["ENERGY", "LATENCY", "ENERGY_DELAY_PRODUCT", "ENERGY|LATENCY", "ENERGY|LATENCY|RESOURCE_USAGE"]
    cases = []
    for i in range(n):
        wk = rnd.choice(["chain2", "chain2", "mvchain2", "fanin2", "chain3"])
        d = gs.gen_spec(rnd, wk, levels=2 if wk in ("chain3", "fanin2") else rnd.choice([2, 2, 3]),
                        size_class=rnd.choice(["tight", "tight", "tight", "generous", "inf"]), costs=rnd.choice(["tradeoff", "tradeoff", "random"]))
        cases.append({"class": wk + "/" + d["arch"]["size_class"], "desc": d, "metrics": mets[i % len(mets)]})
    return cases


def vectors(rows, metrics, finite):
    out = []
    for r in rows:
        v = []
        if metrics == "ENERGY":
            v = [r["energy"]]
        elif metrics == "LATENCY":
            v = [r["latency"]]
        elif metrics == "ENERGY_DELAY_PRODUCT":
            v = [r["edp"] if r.get("edp") is not None else r["energy"] * r["latency"]]
        else:
            v = [r["energy"], r["latency"]]
            if "RESOURCE_USAGE" in metrics:
                v += [r["usage"].get(m, 0.0) for m in finite]
        out.append(tuple(v))
    return out


def match(a, b, tol=2.0 ** -16):
    def near(x, y):
        return all(abs(p - q) <= tol * max(abs(p), abs(q)) + 1e-9 for p, q in zip(x, y))
    miss_a = [x for x in a if not any(near(x, y) for y in b)]
    miss_b = [y for y in b if not any(near(x, y) for x in a)]
    return miss_a, miss_b


def run_case(case):
    from .. import harness as H
    from ..ref.pareto import front
    from accelforge.mapper import Metrics
    from accelforge.mapper.FFM import main as ffm
    from accelforge.mapper.FFM._join_pmappings import join_pmappings as jp
    H.serial()
    d, metrics = case["desc"], case["metrics"]
    m = H.metrics_of(metrics)
    counters = {}
    events = []

    def bump(k, n=1):
        counters[k] = counters.get(k, 0) + n
    # ---- event recorders on the staged path
    orig = {"js2": jp.join_strategy_2, "prune": jp.prune_with_tolerance, "inner": jp.join_pmappings, "thr_call": jp.OptimalityThresholder.__call__}

    def js2(*a, **k):
        events.append(("join_strategy_2", k.get("resource_usage_tolerance", a[7] if len(a) > 7 else 0)))
        bump("resource_threshold_rounds")
        return orig["js2"](*a, **k)

    def prune(*a, **k):
        events.append(("prune_with_tolerance", k.get("objective_tolerance")))
        if not k.get("is_last"):
            bump("dirty_join_rounds_observed")
        return orig["prune"](*a, **k)

    def inner(*a, **k):
        bump("inner_joins")
        return orig["inner"](*a, **k)

    def thr_call(self, *a, **k):
        bump("optimality_filter_calls_observed")
        return orig["thr_call"](self, *a, **k)
    jp.join_strategy_2, jp.prune_with_tolerance, jp.join_pmappings = js2, prune, inner
    jp.OptimalityThresholder.__call__ = thr_call
    os.environ.pop("ACCELFORGE_VERIF_NO_LOOKAHEAD", None)
    viol = []
    try:
        spec = H.build_spec(d)
        spec.mapper.metrics = m
        try:
            pm = ffm.make_pmappings(spec, print_progress=False)
            staged = ffm.join_pmappings(pm, metrics=m, print_progress=False)
            srows = H.result_rows(staged, with_tree=False)
        except Exception as ex:
            msg = str(ex)
            if any(s in msg for s in ("No valid", "no valid", "No pmappings", "No mappings", "no mappings")):
                srows = None
            else:
                raise
    finally:
        jp.join_strategy_2, jp.prune_with_tolerance, jp.join_pmappings = orig["js2"], orig["prune"], orig["inner"]
        jp.OptimalityThresholder.__call__ = orig["thr_call"]
    retried = len({e[1] for e in events if e[0] == "join_strategy_2"}) > 1
    if retried:
        bump("oversubscription_retries_observed")
    # ---- exact reference
    os.environ["ACCELFORGE_VERIF_NO_LOOKAHEAD"] = "1"
    try:
        spec2 = H.build_spec(d)
        spec2.mapper.metrics = m | Metrics.RESOURCE_USAGE
        spec2.mapper._combine_reservations = False
        try:
            pm2 = ffm.make_pmappings(spec2, print_progress=False, can_combine_multiple_runs=True)
            exact = jp.clean_compress_and_join_pmappings(pm2, m | Metrics.RESOURCE_USAGE, for_model=True, print_progress=False)
            erows = H.result_rows(exact, with_tree=False)
        except Exception as ex:
            msg = str(ex)
            if any(s in msg for s in ("No valid", "no valid", "No pmappings", "No mappings", "no mappings")):
                erows = None
            else:
                raise
    finally:
        os.environ.pop("ACCELFORGE_VERIF_NO_LOOKAHEAD", None)
    finite = [x["name"] for x in d["arch"]["mems"] if x.get("size", "inf") != "inf"]
    erows_valid = [r for r in (erows or []) if all(u <= 1 + 1e-6 for u in r["usage"].values())]
    bump("fronts_compared")
    if srows is None or not erows_valid:
        if (srows is None) != (not erows_valid):
            viol.append({"sig": "validity_differs_between_staged_and_exact_join",
                         "witness": {"staged_has_mappings": srows is not None, "exact_valid_rows": len(erows_valid), "metrics": metrics, "spec": gs.summary(d)}})
        return {"status": "violation" if viol else "ok", "violations": viol, "counters": counters}
    sv = sorted(set(vectors(srows, metrics, finite)))
    ev = front(vectors(erows_valid, metrics, finite))
    miss_s, miss_e = match(sv, ev)
    if "RESOURCE_USAGE" in metrics:
        # the code prunes on the individual reservation columns, not on the per-memory maximum that is reported:
        # a staged point only has to exist among the exact join's valid candidates (its optimality on the reported
        # usage vector is C02's business); every point of the exact front must still be returned
        all_e = sorted(set(vectors(erows_valid, metrics, finite)))
        miss_s, _ = match(sv, all_e)
    if miss_s or miss_e:
        kind = "staged_has_extra_or_worse_points" if miss_s and not miss_e else ("staged_misses_front_points" if miss_e and not miss_s else "fronts_differ")
        viol.append({"sig": f"{kind}:{'single' if len(sv[0]) == 1 else 'multi'}_objective",
                     "witness": {"metrics": metrics, "staged_only": miss_s[:6], "exact_only": miss_e[:6], "staged_front_size": len(sv), "exact_front_size": len(ev),
                                 "events": events[:20], "spec": gs.summary(d)}})
    nt = [json.dumps([d["class"], d["workload"]["ranks"], metrics, [x["size"] for x in d["arch"]["mems"]]])] if len(erows_valid) >= 2 else []
    return {"status": "violation" if viol else "ok", "violations": viol, "nontrivial": nt, "counters": counters,
            "sample": {"spec": gs.summary(d), "metrics": metrics, "staged_front": sv[:8], "exact_candidates": len(erows), "events": events[:12]}}
