"""C09 - symbolic sign and monotonicity verdicts hold at every point of the box."""
import itertools
import random

ID = "C09"
LEVEL = "exploration"
CHUNK = 2
CASE_TIMEOUT = 1500
REQUIRED_COUNTERS = ["sign_verdicts_checked", "derivative_verdicts_checked", "definite_verdicts"]
RULE = ("random expression trees (depth <= 3) over 1-4 positive integer symbols built from sums, differences, products, "
        "quotients by a symbol, ceilings of quotients, Min/Max, Heaviside(a-b)*g and constants, over integer boxes with "
        "bounds in 1..8 (<= 700 points); geq_leq_zero (both terms_do_not_cross_zero settings; True only when the "
        "enumeration shows the formula really does not change sign) and diff_geq_leq_zero for every symbol; every definite "
        "verdict (>=0, <=0, =0) is checked at EVERY integer point of the box in exact rational arithmetic (sympy); points "
        "where a Heaviside argument is 0 or the derivative is undefined (integer ceiling argument, DiracDelta(0)) are "
        "skipped and counted; 'unknown' is always accepted. non-trivial = a definite verdict on a formula with >= 2 "
        "symbols or a ceiling/Min/Max/Heaviside; distinct = (formula, box)")
ASSUMPTIONS = ["the derivative is the one sympy computes on expand(f), as the code does; the derivative of ceiling(u) is taken "
               "as 0 where u is not an integer and undefined where it is",
               "an exception raised by the comparator is 'no verdict' (inconclusive), not a violation"]
TECHNIQUE = "runtime monitoring: exhaustive exact evaluation over the integer box as oracle for every verdict the comparator returns"


def gen_cases(tier, seed):
    rnd = random.Random(f"C09-{seed}")
    n, per = (32, 18) if tier == "quick" else (256, 40)
    return [{"class": ["plain", "ceiling", "minmax", "heaviside"][i % 4], "seed": rnd.randrange(2**31), "count": per} for i in range(n)]


def build(rnd, syms, cls, depth=0):
    import sympy as sp
    R = sp.Rational

    def leaf():
        return rnd.choice(syms) if rnd.random() < 0.7 else rnd.choice([sp.Integer(1), sp.Integer(2), sp.Integer(3), sp.Integer(8), R(1, 2)])
    if depth >= 3 or (depth > 0 and rnd.random() < 0.3):
        return leaf()
    kinds = ["sum", "prod", "quot", "diff"]
    if cls == "ceiling":
        kinds += ["ceil", "ceil", "ceil"]
    if cls == "minmax":
        kinds += ["min", "max", "min", "max"]
    if cls == "heaviside":
        kinds += ["heav", "heav", "min"]
    k = rnd.choice(kinds)
    a = build(rnd, syms, cls, depth + 1)
    b = build(rnd, syms, cls, depth + 1)
    if k == "sum":
        return a + b
    if k == "diff":
        return a - b
    if k == "prod":
        return a * b
    if k == "quot":
        return a / rnd.choice(syms)
    if k == "ceil":
        num = rnd.choice([sp.Integer(rnd.choice([4, 6, 8, 12])), rnd.choice(syms), a])
        return sp.ceiling(num / rnd.choice(syms)) * (b if rnd.random() < 0.5 else 1)
    if k == "min":
        return sp.Min(a, b)
    if k == "max":
        return sp.Max(a, b)
    if k == "heav":
        if len(syms) >= 2:
            s1, s2 = rnd.sample(syms, 2)
            return sp.Heaviside(s1 - s2) * a + b
        return sp.Heaviside(syms[0] - rnd.randint(1, 6)) * a + b
    raise ValueError(k)


class Undefined(Exception):
    pass


def evaluate(expr, point):
    """Exact value at an integer point, Undefined at kinks."""
    import sympy as sp
    for h in expr.atoms(sp.Heaviside):
        if h.args[0].xreplace(point) == 0:
            raise Undefined()
    v = expr.xreplace(point)
    if v.has(sp.Subs) or v.has(sp.Derivative):
        def fix(e):
            # Subs(Derivative(ceiling(xi), xi), xi, value) -> 0 unless value is an integer
            if isinstance(e, sp.Subs):
                val = e.point[0]
                inner = e.expr
                if isinstance(inner, sp.Derivative) and inner.expr.func == sp.ceiling:
                    if val.is_integer:
                        raise Undefined()
                    return sp.Integer(0)
                raise Undefined()
            return e
        v = v.replace(lambda e: isinstance(e, sp.Subs), fix)
        if v.has(sp.Derivative):
            raise Undefined()
    if v.has(sp.DiracDelta):
        raise Undefined()
    v = sp.nsimplify(v) if not v.is_Rational else v
    if not v.is_Rational:
        v = sp.simplify(v)
        if not (v.is_Rational or v.is_real):
            raise Undefined()
    return v


def features(f):
    import sympy as sp
    out = []
    if f.has(sp.ceiling):
        out.append("ceiling")
    if f.has(sp.Min) or f.has(sp.Max):
        out.append("minmax")
    if f.has(sp.Heaviside) or f.has(sp.DiracDelta):
        out.append("heaviside")
    return "+".join(out) or "plain"


def drop_ceiling(f):
    import sympy as sp
    return f.replace(lambda e: e.is_Function and e.func == sp.ceiling, lambda e: e.args[0])


def sound(verdict, values):
    name = verdict.name
    if name == "UNKNOWN":
        return True, None
    for p, v in values:
        if (name == "ALWAYS_GEQ_THAN_ZERO" and v < 0) or (name == "ALWAYS_LEQ_THAN_ZERO" and v > 0) or \
                (name == "ALWAYS_EQUAL_TO_ZERO" and v != 0):
            return False, (p, v)
    return True, None


def primitive_faults(mts, sp, target, bounds, flag, evaluate_exact):
    """Shadow of geq_leq_zero / _compare_to_zero that checks every sympy PRIMITIVE the comparator relies on against
    exhaustive evaluation over the integer box: `expr.subs(all lo / all hi)`, the relational `expr >= 0` / `expr <= 0`
    when sympy decides it outright, and `function_range(expr, s, lo, hi)` (with the other symbols left free).  Returns
    the set of primitives that returned a wrong result on the way to the verdict."""
    faults = set()
    box = {str(s): (lo, hi) for s, lo, hi in bounds}

    def points(symbols):
        names = sorted(str(x) for x in symbols)
        for combo in itertools.product(*[range(box[n][0], box[n][1] + 1) for n in names]):
            yield dict(zip(names, combo))

    def exact(expr, pt):
        return evaluate_exact(expr, {s: sp.Integer(pt[str(s)]) for s in expr.free_symbols})

    if flag:
        for pick in (1, 2):
            pt = {str(s): b[pick] for b in bounds for s in [b[0]]}
            try:
                got = target.subs({b[0]: b[pick] for b in bounds})
                want = exact(target, pt)
                if got.is_number and got != want:
                    faults.add("subs")
            except Exception:
                pass

    def walk(f, check_lt, depth=0):
        if depth > 6 or not getattr(f, "free_symbols", None):
            return
        f = f.doit()
        if isinstance(f, sp.Expr):
            f = f.replace(lambda e: e.is_Function and e.func == sp.ceiling, lambda e: e.args[0])
            fs = list(mts.partition_heaviside(f))
        else:
            fs = [f]
        if len(fs) > 1:
            for f2 in fs:
                walk(f2, check_lt, depth + 1)
            return
        f = fs[0]
        if not getattr(f, "free_symbols", None):
            return
        try:
            decided = (f >= 0) if check_lt else (f <= 0)
            if decided in (sp.true, sp.false):
                vals = []
                for pt in points(f.free_symbols):
                    try:
                        vals.append(exact(f, pt))
                    except Exception:
                        pass
                truth = all(v >= 0 for v in vals) if check_lt else all(v <= 0 for v in vals)
                if vals and bool(decided) != truth:
                    faults.add("relational")
                return
        except TypeError:
            pass
        if isinstance(f, (sp.Min, sp.Max)):
            for g in f.args:
                walk(g, check_lt, depth + 1)
            return
        chosen = min(f.free_symbols, key=lambda x: (f.count(x), str(x)))
        lo, hi = box[str(chosen)]
        try:
            fr = mts.function_range(f, chosen, lo, hi)
        except (NotImplementedError, TypeError):
            return
        others = f.free_symbols - {chosen}
        ends = list(fr) if isinstance(fr, sp.FiniteSet) else [fr.left, fr.right]
        for pt in points(others):
            try:
                vals = [exact(f, dict(pt, **{str(chosen): v})) for v in range(lo, hi + 1)]
                ev = [exact(e, pt) if getattr(e, "free_symbols", None) else e for e in ends]
            except Exception:
                continue
            if isinstance(fr, sp.FiniteSet):
                if any(v not in ev for v in vals):
                    faults.add("function_range")
            elif min(vals) < ev[0] or max(vals) > ev[1]:
                faults.add("function_range")
        if isinstance(fr, sp.FiniteSet):
            for e in ends:
                walk(e, check_lt, depth + 1)
        else:
            walk(fr.left if check_lt else fr.right, check_lt, depth + 1)
    try:
        walk(target, True)
        walk(target, False)
    except Exception:
        pass
    return faults


def check_formula(fsrc, bounds_src, counters):
    """fsrc: srepr string of the formula; bounds_src: [[name, lo, hi], ...]"""
    import sympy as sp
    from accelforge.mapper.FFM._make_pmappings.make_pmappings_from_templates import make_tile_shapes as mts

    syms = {n: mts.makesymbol(n) for n, _, _ in bounds_src}
    f = sp.sympify(fsrc, locals=syms)
    bounds = tuple((syms[n], lo, hi) for n, lo, hi in bounds_src)
    pts = [dict(zip([b[0] for b in bounds], p)) for p in itertools.product(*[range(lo, hi + 1) for _, lo, hi in bounds])]
    viol = []
    nontrivial = False

    def bump(k, n=1):
        counters[k] = counters.get(k, 0) + n

    def values_of(expr):
        vals = []
        for p in pts:
            try:
                vals.append((p, evaluate(expr, {k: sp.Integer(v) for k, v in p.items()})))
            except Undefined:
                bump("points_skipped_undefined")
        return vals

    def judge(kind, expr, verdict, extra):
        nonlocal nontrivial
        vals = values_of(expr)
        bump(kind + "_verdicts_checked")
        if verdict.name != "UNKNOWN":
            bump("definite_verdicts")
            if len(bounds) >= 2 or features(f) != "plain":
                nontrivial = True
        ok, wit = sound(verdict, vals)
        if not ok:
            feat = features(f)
            sig = f"unsound_{verdict.name}:{kind}:{feat}"
            # mechanism attribution: does the verdict hold for the formula as the comparator sees it?
            try:
                seen = drop_ceiling(expr) if "ceiling" in feat else expr
                if seen.has(sp.Subs) or seen.has(sp.Derivative):
                    seen = seen.doit()
                hs = seen.atoms(sp.Heaviside) | seen.atoms(sp.DiracDelta)

                def sympy_shortcut_wrong(v):
                    # sympy's own assumption system decides `v >= 0` / `v <= 0` outright, and gets it wrong
                    # (e.g. (3 - 4/(a*b)).is_negative is True for positive integer symbols in sympy 1.14)
                    vals = values_of(v)
                    try:
                        if (v >= 0) == sp.true and any(x < 0 for _, x in vals):
                            return True
                        if (v <= 0) == sp.true and any(x > 0 for _, x in vals):
                            return True
                    except TypeError:
                        pass
                    for sub in sp.preorder_traversal(v):
                        if sub is v or not sub.free_symbols or not sub.is_Add:
                            continue
                        sv = values_of(sub)
                        try:
                            if ((sub >= 0) == sp.true and any(x < 0 for _, x in sv)) or \
                                    ((sub <= 0) == sp.true and any(x > 0 for _, x in sv)):
                                return True
                        except TypeError:
                            pass
                    return False
                variants = [seen] if not hs else [
                    seen.replace(lambda e: e.is_Function and e.func in (sp.Heaviside, sp.DiracDelta),
                                 lambda e, val=val: sp.Integer(val) if e.func == sp.Heaviside else sp.Integer(0))
                    for val in (0, 1)]
                if any(sympy_shortcut_wrong(v) for v in variants):
                    viol.append({"sig": "sympy_assumptions_decide_wrong_sign",
                                 "witness": dict(extra, formula=str(f), bounds=bounds_src, verdict=verdict.name,
                                                 point={str(k): v for k, v in wit[0].items()}, value=str(wit[1]))})
                    return
                if "ceiling" in feat and sound(verdict, values_of(seen))[0]:
                    sig = "ceiling_replaced_by_argument"
                elif len(hs) >= 2:
                    def swap(val):
                        return seen.replace(lambda e: e.is_Function and e.func in (sp.Heaviside, sp.DiracDelta),
                                            lambda e: sp.Integer(val) if e.func == sp.Heaviside else sp.Integer(0))
                    if sound(verdict, values_of(swap(1)))[0] and sound(verdict, values_of(swap(0)))[0]:
                        sig = "heaviside_all_or_nothing"
            except Exception:
                pass
            if sig.startswith("unsound_"):
                # still unexplained: did a sympy primitive the comparator relies on return a wrong result on the way?
                faults = primitive_faults(mts, sp, drop_ceiling(expr) if "ceiling" in feat else expr, bounds,
                                          bool(extra.get("terms_do_not_cross_zero")), evaluate)
                if faults == {"relational"}:
                    # sympy decides `expr >= 0` / `expr <= 0` outright and wrongly for an INTERMEDIATE expression of the
                    # comparator's reduction: same mechanism as the top-level case
                    sig = "sympy_assumptions_decide_wrong_sign"
                elif faults:
                    sig = "sympy_primitive_returns_wrong_result:" + "+".join(sorted(faults))
                elif extra.get("terms_do_not_cross_zero") and verdict.name in ("ALWAYS_LEQ_THAN_ZERO", "ALWAYS_GEQ_THAN_ZERO"):
                    # with the flag, "may be < 0" (which _compare_to_zero also answers when it CANNOT TELL) is returned
                    # as ALWAYS_LEQ_THAN_ZERO before the other side is even asked (and likewise for > 0)
                    try:
                        tgt = drop_ceiling(expr) if "ceiling" in feat else expr
                        lt = mts._compare_to_zero(tgt, bounds, True, True)
                        gt = mts._compare_to_zero(tgt, bounds, False, True)
                        if (verdict.name == "ALWAYS_LEQ_THAN_ZERO" and lt and not any(v < 0 for _, v in vals)) or \
                                (verdict.name == "ALWAYS_GEQ_THAN_ZERO" and gt and not lt and not any(v > 0 for _, v in vals)):
                            sig = "cannot_tell_taken_as_definite_under_terms_do_not_cross_zero"
                    except Exception:
                        pass
            viol.append({"sig": sig, "witness": dict(extra, formula=str(f), bounds=bounds_src, verdict=verdict.name,
                                                     point={str(k): v for k, v in wit[0].items()}, value=str(wit[1]))})

    fvals = values_of(f)
    # terms_do_not_cross_zero=True is a promise of the caller (energy / latency / usage formulas: sums of terms of one
    # sign). It is only exercised when the enumeration shows every additive term to be >= 0 (or every one <= 0).
    definite = False
    if fvals:
        try:
            tv = [values_of(t) for t in sp.Add.make_args(sp.expand(f))]
            definite = all(all(v >= 0 for _, v in t) for t in tv) or all(all(v <= 0 for _, v in t) for t in tv)
        except Exception:
            definite = False
    for flag in ([False, True] if definite else [False]):
        try:
            verdict = mts.geq_leq_zero(f, bounds, flag)
        except Exception as ex:
            bump("comparator_raised:" + type(ex).__name__)
            continue
        judge("sign", f, verdict, {"terms_do_not_cross_zero": flag})
    fx = sp.expand(f)
    for s, _, _ in bounds:
        if s not in f.free_symbols:
            continue
        try:
            verdict = mts.diff_geq_leq_zero(f, s, bounds)
        except Exception as ex:
            bump("comparator_raised:" + type(ex).__name__)
            continue
        g = sp.diff(fx, s)
        judge("derivative", g, verdict, {"d/d": str(s)})
    return viol, nontrivial


def run_case(case):
    counters, viol, nontriv, sample = {}, [], [], None
    if "formula" in case:
        v, _ = check_formula(case["formula"], case["bounds"], counters)
        return {"status": "violation" if v else "ok", "violations": v, "counters": counters, "nontrivial": ["explicit"]}
    import sympy as sp
    from accelforge.mapper.FFM._make_pmappings.make_pmappings_from_templates import make_tile_shapes as mts
    rnd = random.Random(case["seed"])
    per_sig = {}
    for _ in range(case["count"]):
        ns = rnd.choice([1, 2, 2, 3, 3, 4])
        names = [f"s{i}" for i in range(ns)]
        syms = [mts.makesymbol(n) for n in names]
        top = {1: 8, 2: 8, 3: 6, 4: 4}[ns]
        bounds = []
        for n in names:
            lo = rnd.randint(1, 3)
            bounds.append([n, lo, rnd.randint(lo, top)])
        f = build(rnd, syms, case["class"])
        if not f.free_symbols:
            continue
        bounds = [b for b in bounds if any(str(s) == b[0] for s in f.free_symbols)]
        fsrc = sp.srepr(f) if False else str(f)
        from ..timeouts import time_limit, ItemTimeout
        try:
            with time_limit(20):
                v, nt = check_formula(fsrc, bounds, counters)
        except Undefined:
            continue
        except ItemTimeout:
            counters["formula_watchdog_20s(inconclusive)"] = counters.get("formula_watchdog_20s(inconclusive)", 0) + 1
            continue
        for x in v:
            per_sig[x["sig"]] = per_sig.get(x["sig"], 0) + 1
            if per_sig[x["sig"]] <= 2:
                x["case"] = {"class": case["class"], "formula": fsrc, "bounds": bounds}
                viol.append(x)
        if nt:
            nontriv.append(fsrc + "|" + str(bounds))
            if sample is None:
                sample = {"formula": fsrc, "bounds": bounds}
    for s, c in per_sig.items():
        counters["violating_verdicts:" + s] = c
    return {"status": "violation" if viol else "ok", "violations": viol, "nontrivial": nontriv,
            "counters": counters, "sample": sample}
