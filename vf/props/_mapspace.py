"""Shared by C01/C02: enumerate the declared mapspace of a single-Einsum spec and evaluate every
tree with the real model (evaluate_mapping on a fresh spec)."""
import json
import random

from ..gen import specs as gs


def dedicated_spec(rnd):
    """Dedicated-buffer hierarchy: MainMemory -> GLB {keep: two tensors} -> XB {keep: X} -> XR {may_keep: X} -> MAC.
    XB is FORCED to hold X although it is not X's backing store, XR may hold X again directly below it; with a tiny
    XR and a cheap XR / expensive XB the optimum puts the two nodes next to each other (register-stationary X)."""
    d = gs.gen_spec(rnd, "mm1", levels=2, size_class="tight", costs="tradeoff")
    w = d["workload"]
    rvs = list(w["ranks"])
    rnd.shuffle(rvs)
    for rv, pool in zip(rvs, ([2, 3, 4], [2, 3], [2, 3])):      # at most one bound with a two-level divisor chain: <= 2284 trees
        w["ranks"][rv] = rnd.choice(pool)
    ts = [t["name"] for t in w["einsums"][0]["tensors"]]
    x = rnd.choice(ts)
    others = [t for t in ts if t != x]
    bits = w["bits"]
    sizes = gs.tensor_sizes(w)
    e_buf = rnd.choice([5, 5, 10, 2])
    main = {"name": "MainMemory", "size": "inf", "keep": "All", "may_keep": "All", "read_e": 100, "write_e": 100,
            "read_tp": "inf", "write_tp": "inf", "leak": 0}
    glb = {"name": "GLB", "size": rnd.randint(2, max(3, sum(sizes[t] for t in others))) * bits, "keep": " | ".join(others), "may_keep": "Nothing",
           "read_e": e_buf, "write_e": e_buf, "read_tp": "inf", "write_tp": "inf", "leak": 0}
    xb = {"name": "XB", "size": rnd.randint(1, max(2, sizes[x])) * bits, "keep": x, "may_keep": "Nothing",
          "read_e": e_buf, "write_e": e_buf, "read_tp": "inf", "write_tp": "inf", "leak": 0}
    xr = {"name": "XR", "size": rnd.choice([1, 1, 2, 4]) * bits, "keep": "Nothing", "may_keep": x,
          "read_e": 0.5, "write_e": 0.5, "read_tp": "inf", "write_tp": "inf", "leak": 0}
    d["arch"] = {"mems": [main, glb, xb, xr], "mac": {"name": "MAC", "energy": 1, "tp": 1, "leak": 0}, "levels": 4,
                 "size_class": "tight-dedicated", "costs": "dedicated"}
    d["class"] = "mm1/4L/tight-dedicated/dedicated"
    return d


def gen_small_specs(rnd, n, tier, costs=None, dedicated=0.3):
    cases = []
    tries = 0
    while len(cases) < n and tries < 50 * n:
        tries += 1
        if costs is None and rnd.random() < dedicated:
            cases.append(dedicated_spec(rnd))
            continue
        wk = rnd.choice(["mm1", "mm1", "mv1", "ew1"])
        levels = 2 if tier == "quick" else rnd.choice([2, 2, 3])
        d = gs.gen_spec(rnd, wk, levels=levels, size_class=rnd.choice(["inf", "tight", "tight", "generous"]),
                        costs=costs or rnd.choice(["tradeoff", "random", "cheap_inner"]))
        pool = [2, 3, 4] if tier == "quick" else [2, 3, 4, 6, 8, 9]
        for rv in d["workload"]["ranks"]:
            d["workload"]["ranks"][rv] = rnd.choice(pool)
        if levels == 3:
            # keep the space enumerable: the innermost memory may hold at most two tensors
            ts = [t["name"] for t in d["workload"]["einsums"][0]["tensors"]]
            d["arch"]["mems"][2]["keep"] = "Nothing"
            d["arch"]["mems"][2]["may_keep"] = " | ".join(rnd.sample(ts, min(2, len(ts))))
            for rv in d["workload"]["ranks"]:
                d["workload"]["ranks"][rv] = rnd.choice([2, 3, 4])
        # re-derive a binding capacity for the new bounds
        if d["arch"]["size_class"] == "tight":
            sizes = sorted(gs.tensor_sizes(d["workload"]).values())
            for i, m in enumerate(d["arch"]["mems"][1:]):
                m["size"] = rnd.randint(max(2, sizes[0] // 2), max(3, sum(sizes))) * d["workload"]["bits"]
                if i == 1:
                    m["size"] = max(2 * d["workload"]["bits"], m["size"] // 2)
        cases.append(d)
    return cases


def evaluate_space(d, budget, counters):
    """Returns list of (energy, latency, usage dict, tree) for every VALID enumerated tree, or None when over budget."""
    from .. import harness as H
    from ..ref import mapspace as ms
    from accelforge.model.main import InvalidMappingError
    H.serial()
    out = []
    try:
        trees = list(ms.enumerate_trees(d, budget=budget))
    except ms.OverBudget:
        counters["skipped_over_budget"] = counters.get("skipped_over_budget", 0) + 1
        return None
    for tree in trees:
        try:
            ev = H.eval_tree(d, tree)
        except InvalidMappingError:
            counters["enumerated_invalid(capacity)"] = counters.get("enumerated_invalid(capacity)", 0) + 1
            continue
        except Exception as ex:
            counters["enumerated_model_exception:" + type(ex).__name__] = counters.get("enumerated_model_exception:" + type(ex).__name__, 0) + 1
            continue
        counters["trees_model_evaluated"] = counters.get("trees_model_evaluated", 0) + 1
        out.append((float(ev.energy()), float(ev.latency()), {k: float(v) for k, v in ev.resource_usage().items()}, tree))
    return out
