"""C26 - component totals count every instance of the component."""
import json
import random

from ..gen import archtree as at

ID = "C26"
LEVEL = "exploration"
CHUNK = 6
CASE_TIMEOUT = 600
REQUIRED_COUNTERS = ["components_checked", "arch_totals_checked"]
RULE = ("random architecture trees as in C25 with fanouts on components, containers and computes at any position "
        "and random per-instance area/leak; after Spec.calculate_component_costs every component's total_area / "
        "total_leak_power is compared with per-instance value x product of the fanouts of itself and of the "
        "non-compute leaves above it on its path (generator-side walker); arch totals compared with the sums; "
        "non-trivial = some component has instance count > 1; distinct = structural shape incl. fanouts")
ASSUMPTIONS = ["explicit area/leak values, no hwcomponents model lookups",
               "Array nodes not generated"]
TECHNIQUE = "runtime monitoring: reference instance-count walker vs calculate_component_costs on seeded random architectures"


def gen_cases(tier, seed):
    rnd = random.Random(f"C26-{seed}")
    n, per = (24, 20) if tier == "quick" else (160, 50)
    return [{"class": "shared_dims" if i % 4 == 3 else "unique_dims", "seed": rnd.randrange(2**31), "count": per}
            for i in range(n)]


def classify(tree, leaf, got, exp_total, per_instance):
    """Mechanism of a wrong total."""
    own = at.fanout_of(leaf)
    path = at.path_to(tree, leaf["name"])[0]
    anc = 1
    for n in path[:-1]:
        anc *= at.fanout_of(n)
    if own > 1 and abs(got - per_instance * anc) < 1e-9:
        return "own_fanout_not_counted"
    # product over everything that precedes it in document order inside its enclosing hierarchies, computes included
    return "ancestor_set_wrong"


def check_tree(tree, counters):
    from .. import yamlgen
    from accelforge.frontend.arch import Component

    spec = yamlgen.load_spec({"arch": {"nodes": at.to_yaml_nodes(tree)}})
    spec = spec.calculate_component_costs()
    viol = []
    sum_area = sum_leak = 0
    comps = {n.name: n for n in spec.arch.get_nodes_of_type(Component)}
    sigs = set()
    for leaf in at.all_leaves(tree):
        if leaf["kind"] == "Container":
            continue
        inst = at.instances(tree, leaf["name"])
        c = comps[leaf["name"]]
        counters["components_checked"] = counters.get("components_checked", 0) + 1
        for what, per, got in (("area", leaf["area"], c.total_area), ("leak", leaf["leak"], c.total_leak_power)):
            exp = per * inst
            if what == "area":
                sum_area += exp
            else:
                sum_leak += exp
            if got is None or abs(float(got) - exp) > 1e-9 * max(1, exp):
                own = at.fanout_of(leaf)
                path = at.path_to(tree, leaf["name"])[0]
                anc = 1
                for n in path[:-1]:
                    anc *= at.fanout_of(n)
                if got is not None and own > 1 and abs(float(got) - per * anc) < 1e-9:
                    sig = "own_fanout_not_counted"
                elif got is not None and abs(float(got) - per * anc) >= 1e-9 and float(got) % per == 0:
                    # instance count differs from the ancestors' product: which extra node was multiplied in?
                    ratio = float(got) / per
                    sig = "sibling_compute_counted" if _sibling_compute_explains(tree, leaf, ratio, own) else "instance_count_wrong"
                else:
                    sig = "instance_count_wrong"
                if (sig, what) not in sigs:
                    sigs.add((sig, what))
                    viol.append({"sig": sig, "witness": {"component": leaf["name"], "quantity": "total_" + what,
                                                         "per_instance": per, "expected_instances": inst,
                                                         "expected_total": exp, "got": got,
                                                         "path": [[n["name"], at.fanout_of(n)] for n in path]}})
    counters["arch_totals_checked"] = counters.get("arch_totals_checked", 0) + 1
    # arch totals must be the sums of what the components report (and, transitively, of the expected values)
    rep_area = sum(float(c.total_area) for c in comps.values())
    rep_leak = sum(float(c.total_leak_power) for c in comps.values())
    if abs(float(spec.arch.total_area) - rep_area) > 1e-9 * max(1, rep_area) or \
            abs(float(spec.arch.total_leak_power) - rep_leak) > 1e-9 * max(1, rep_leak):
        viol.append({"sig": "arch_total_not_sum", "witness": {"arch_total_area": spec.arch.total_area, "sum": rep_area,
                                                               "arch_total_leak": spec.arch.total_leak_power, "sum_leak": rep_leak}})
    return viol


def _sibling_compute_explains(tree, leaf, ratio, own):
    """True iff `ratio` equals the product of the fanouts of every named node that precedes
    the leaf in hierarchy order when computes are (wrongly) treated as ancestors."""
    def walk(nodes, parents):
        # mimics 'every earlier sibling is a parent', forks copy the parent list
        for n in nodes:
            if n["kind"] == "Fork":
                r = walk(n["children"], list(parents))
                if r is not None:
                    return r
            elif n["kind"] == "Hierarchical":
                r = walk(n["children"], parents)
                if r is not None:
                    return r
            else:
                if n["name"] == leaf["name"]:
                    return list(parents)
                parents.append(n)
        return None
    ps = walk(tree, [])
    if ps is None:
        return False
    f = 1
    for p in ps:
        f *= at.fanout_of(p)
    has_compute_parent = any(p["kind"] == "Compute" and at.fanout_of(p) > 1 for p in ps)
    return has_compute_parent and (abs(ratio - f) < 1e-9 or abs(ratio - f * own) < 1e-9)


def run_case(case):
    counters, viol, nontriv, sample = {}, [], [], None
    if "tree" in case:
        v = check_tree(case["tree"], counters)
        return {"status": "violation" if v else "ok", "violations": v, "counters": counters, "nontrivial": ["explicit"]}
    rnd = random.Random(case["seed"])
    per_sig = {}
    for _ in range(case["count"]):
        tree = at.gen_tree(rnd, max_depth=3, shared_dims=case["class"] == "shared_dims")
        v = check_tree(tree, counters)
        for x in v:
            per_sig[x["sig"]] = per_sig.get(x["sig"], 0) + 1
            if per_sig[x["sig"]] <= 2:
                x["case"] = {"class": case["class"], "tree": tree}
                viol.append(x)
        if any(at.instances(tree, l["name"]) > 1 for l in at.all_leaves(tree)):
            nontriv.append(json.dumps(at.shape(tree)))
            if sample is None and len(json.dumps(tree)) < 900:
                sample = {"tree": tree, "instances": {l["name"]: at.instances(tree, l["name"]) for l in at.all_leaves(tree)}}
    for s, c in per_sig.items():
        counters["violating_trees:" + s] = c
    return {"status": "violation" if viol else "ok", "violations": viol, "nontrivial": nontriv,
            "counters": counters, "sample": sample}
