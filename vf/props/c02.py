"""C02 - the returned Pareto front is complete and contains no dominated mapping."""
import copy
import json
import random

from ..gen import specs as gs
from . import _mapspace as mp

ID = "C02"
LEVEL = "exploration"
CHUNK = 1
CASE_TIMEOUT = 3000
REQUIRED_COUNTERS = ["trees_model_evaluated", "fronts_checked_for_completeness", "fronts_checked_for_dominance"]
RULE = ("specs as in C01 with cost tables on which energy and latency genuinely trade off, metric sets ENERGY|LATENCY and "
        "ENERGY|LATENCY|RESOURCE_USAGE, zero tolerance; (i) every valid enumerated tree (evaluated by the real model) must "
        "be weakly dominated by some returned row on the requested objectives (usage of every finite memory included when "
        "RESOURCE_USAGE is requested), (ii) no returned row strictly dominates another, (iii) no two returned rows have "
        "identical objective vectors; a cost-magnitude class multiplies all energies by 2^+-30..40 (J vs pJ) and re-checks "
        "(ii)/(iii). non-trivial = the returned front has >= 2 rows; distinct = (spec, metric set, scale)")
ASSUMPTIONS = ["single-Einsum slice for (i); (ii)/(iii) also on 2-Einsum specs", "float32 tolerance 2^-18 relative for weak dominance",
               "because of the known C06 order-dependence of reported usage, completeness under RESOURCE_USAGE compares usage with a 1e-6 slack"]
TECHNIQUE = "runtime monitoring: brute-force mapspace enumeration (real model on every tree) + O(n^2) dominance oracle on every returned front"


def gen_cases(tier, seed):
    rnd = random.Random(f"C02-{seed}")
    n = 16 if tier == "quick" else 50
    cases = []
    for i, d in enumerate(mp.gen_small_specs(rnd, n, tier, costs="tradeoff")):
        cases.append({"class": "complete/" + d["arch"]["size_class"], "desc": d, "budget": 2500 if tier == "quick" else 20000,
                      "metrics": "ENERGY|LATENCY" if i % 3 else "ENERGY|LATENCY|RESOURCE_USAGE"})
    nu = 8 if tier == "quick" else 40
    for i in range(nu):
        wk = rnd.choice(["chain2", "chain2", "mvchain2"])
        d = gs.gen_spec(rnd, wk, levels=rnd.choice([2, 3]), costs="tradeoff", size_class=rnd.choice(["tight", "generous"]))
        cases.append({"class": "usage_front", "desc": d, "scale": 1.0, "metrics": "ENERGY|LATENCY|RESOURCE_USAGE"})
    ns = 12 if tier == "quick" else 70
    for i in range(ns):
        d = gs.gen_spec(rnd, rnd.choice(["mm1", "chain2", "mvchain2", "fanin2"]), levels=2, costs="tradeoff",
                        size_class=rnd.choice(["tight", "inf", "generous"]))
        k = rnd.choice([2.0 ** 40, 2.0 ** 30, 2.0 ** -30, 2.0 ** 20, 1.0, 2.0 ** -20])
        cases.append({"class": "magnitude", "desc": d, "scale": k, "metrics": "ENERGY|LATENCY"})
    return cases


def vec(row, finite_mems, with_usage):
    v = [row["energy"], row["latency"]]
    if with_usage:
        v += [row["usage"].get(m, 0.0) for m in finite_mems]
    return v


def dominance_checks(rows, finite_mems, with_usage, viol, witness_extra):
    from .. import harness as H
    vs = [vec(r, finite_mems, with_usage) for r in rows]
    for i, a in enumerate(vs):
        for j, b in enumerate(vs):
            if i == j:
                continue
            if all(x <= y for x, y in zip(a, b)) and any(x < y for x, y in zip(a, b)):
                if all(abs(x - y) <= 2.0 ** -22 * max(abs(x), abs(y)) for x, y in zip(a, b)):
                    # the two vectors are the SAME numbers in float32 (one row carries a usage fraction as float32, the
                    # other as float64: 0.05 vs 0.05000000074505806): a duplicate objective vector, not a dominated row
                    viol.append({"sig": "duplicate_objective_vectors:equal_in_float32",
                                 "witness": dict(witness_extra, vector_a=a, vector_b=b, rows=[i, j], n_rows=len(vs))})
                    return
                sig = "returned_row_strictly_dominated"
                if with_usage:
                    # the code prunes on every reservation column; the reported usage is the per-memory maximum.
                    # Is row j also dominated on the raw columns?
                    cols = sorted(set(rows[i].get("reservations", {})) | set(rows[j].get("reservations", {})))
                    ra = [rows[i]["energy"], rows[i]["latency"]] + [rows[i]["reservations"].get(c, 0.0) for c in cols]
                    rb = [rows[j]["energy"], rows[j]["latency"]] + [rows[j]["reservations"].get(c, 0.0) for c in cols]
                    if not (all(x <= y for x, y in zip(ra, rb)) and any(x < y for x, y in zip(ra, rb))):
                        sig = "dominated_only_on_per_memory_maximum_usage"
                viol.append({"sig": sig, "witness": dict(witness_extra, dominating=a, dominated=b)})
                return
    seen = {}
    for i, a in enumerate(vs):
        key = tuple(a)
        if key in seen:
            viol.append({"sig": "duplicate_objective_vectors", "witness": dict(witness_extra, vector=a, rows=[seen[key], i], n_rows=len(vs),
                                                                             n_distinct=len({tuple(x) for x in vs}))})
            return
        seen[key] = i


def run_case(case):
    from .. import harness as H
    d = case["desc"]
    counters, viol, nontriv = {}, [], []
    metrics = case["metrics"]
    with_usage = "RESOURCE_USAGE" in metrics
    finite = [m["name"] for m in d["arch"]["mems"] if m.get("size", "inf") != "inf"]
    if case["class"] in ("magnitude", "usage_front"):
        d = copy.deepcopy(d)
        k = case["scale"]
        for m in d["arch"]["mems"]:
            m["read_e"] *= k
            m["write_e"] *= k
        d["arch"]["mac"]["energy"] *= k
        try:
            # joined numbers (eval_in_detail=False) so that the raw reservation columns the join pruned on are visible
            rows = H.result_rows(H.run_mapper(d, metrics, eval_in_detail=not with_usage), with_tree=False)
        except H.NoMapping:
            return {"status": "ok", "counters": {"no_valid_mapping": 1}}
        counters["fronts_checked_for_dominance"] = 1
        dominance_checks(rows, finite, with_usage, viol, {"energy_scale": k, "metrics": metrics, "spec": gs.summary(case["desc"])})
        for v in viol:
            if k != 1.0:
                v["sig"] += ":at_energy_scale"
        nt = [json.dumps([d["class"], d["workload"]["ranks"], k])] if len(rows) >= 2 else []
        return {"status": "violation" if viol else "ok", "violations": viol, "nontrivial": nt, "counters": counters,
                "sample": {"energy_scale": k, "front": [[r["energy"], r["latency"]] for r in rows][:10]}}
    space = mp.evaluate_space(d, case["budget"], counters)
    try:
        rows = H.result_rows(H.run_mapper(d, metrics))
    except H.NoMapping:
        rows = None
    if rows is not None:
        counters["fronts_checked_for_dominance"] = 1
        dominance_checks(rows, finite, with_usage, viol, {"metrics": metrics, "spec": gs.summary(d)})
    if space is None:
        return {"status": "violation" if viol else "ok", "violations": viol, "counters": counters, "reason": "over budget"}
    if rows is None:
        if space:
            viol.append({"sig": "mapper_finds_no_mapping_but_valid_mappings_exist", "witness": {"valid_trees": len(space), "spec": gs.summary(d)}})
        return {"status": "violation" if viol else "ok", "violations": viol, "counters": counters}
    counters["fronts_checked_for_completeness"] = 1
    fr = [vec(r, finite, with_usage) for r in rows]
    tol = 2.0 ** -18
    missed, all_exact = None, True
    for e, l, usage, tree in space:
        v = [e, l] + ([usage.get(m, 0.0) for m in finite] if with_usage else [])
        covered = any(all(a <= b * (1 + tol) + 1e-9 for a, b in zip(f, v)) for f in fr)
        if not covered:
            exact = any(abs(usage.get(m, 0.0) - 1.0) <= 1e-6 for m in finite)
            all_exact = all_exact and exact
            if missed is None or (not exact):
                missed = (v, tree)
            if not exact:
                break
    if missed and all_exact:
        # EVERY uncovered valid mapping fills a memory exactly (usage 1.0): the float32 `<= 1` comparison of the
        # tile-shape exploration / the join drops exact fits (C08 finding exact_fit_dropped_by_float32_rounding)
        counters["uncovered_exact_fit_mappings"] = counters.get("uncovered_exact_fit_mappings", 0) + 1
        viol.append({"sig": "exact_fit_mapping_missing_from_front",
                     "witness": {"metrics": metrics, "uncovered_vector": missed[0], "tree": missed[1], "front": fr[:20], "spec": gs.summary(d)}})
    elif missed:
        viol.append({"sig": "valid_mapping_not_dominated_by_front" + (":with_usage" if with_usage else ""),
                     "witness": {"metrics": metrics, "uncovered_vector": missed[0], "tree": missed[1], "front": fr[:20], "spec": gs.summary(d)}})
    better = [f for f in fr if not any(all(b <= a * (1 + tol) + 1e-9 for a, b in zip(f, [e, l] + ([u.get(m, 0.0) for m in finite] if with_usage else [])))
                                       for e, l, u, _ in space)]
    if better:
        counters["enumerator_incomplete"] = 1
    nt = [json.dumps([d["class"], d["workload"]["ranks"], metrics, [m["size"] for m in d["arch"]["mems"]]])] if len(rows) >= 2 else []
    return {"status": "violation" if viol else "ok", "violations": viol, "nontrivial": nt, "counters": counters,
            "sample": {"spec": gs.summary(d), "metrics": metrics, "valid_trees": len(space), "front": fr[:10]}}
