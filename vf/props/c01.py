"""C01 - the mapper returns a mapping that is optimal over the whole mapspace."""
import json
import random

from ..gen import specs as gs
from . import _mapspace as mp

ID = "C01"
LEVEL = "exploration"
CHUNK = 1
CASE_TIMEOUT = 3000
REQUIRED_COUNTERS = ["trees_model_evaluated", "optima_compared"]
RULE = ("small single-Einsum specs (matmul / matvec / elementwise, bounds from {2,3,4} (thorough: up to 9), two-level "
        "(thorough: also three-level) hierarchies, inf / generous / tight capacities, keep/may_keep variants, trade-off / "
        "random / cheap-inner cost tables; plus four-level DEDICATED-buffer hierarchies Main -> GLB{keep two tensors} -> XB{keep X} -> "
        "XR{may_keep X} with tight sizes); the declared mapspace is enumerated as concrete LoopTrees (storage subsets "
        "allowed by keep/may_keep, node orders, divisor chains of every bound placed in every gap, loop orders inside a "
        "gap) and EVERY tree is evaluated by the real model; the mapper's best ENERGY / LATENCY / EDP must equal the "
        "enumerated minimum. A spec whose space exceeds the budget is skipped and counted, never truncated; a mapper "
        "result better than the enumerated optimum is 'enumerator incomplete' (inconclusive). non-trivial = >= 2 distinct "
        "objective values among valid trees and the optimum is not the everything-in-MainMemory tree; distinct = (spec, metric)")
ASSUMPTIONS = ["single-Einsum slice of the property's quantifier (fusion of 2 Einsums is covered indirectly by C13/C14/C17/C18)",
               "float32 tolerance 2^-18 relative", "default mapper knobs, zero tolerance"]
TECHNIQUE = "runtime monitoring: brute-force enumeration of the declared mapspace, every tree evaluated by the real model, as oracle for the mapper's recorded optimum"


def gen_cases(tier, seed):
    rnd = random.Random(f"C01-{seed}")
    n = 20 if tier == "quick" else 60
    return [{"class": d["class"], "desc": d, "budget": 2500 if tier == "quick" else 20000} for d in mp.gen_small_specs(rnd, n, tier)]


def run_case(case):
    from .. import harness as H
    d = case["desc"]
    counters, viol, nontriv = {}, [], []
    space = mp.evaluate_space(d, case["budget"], counters)
    if space is None:
        return {"status": "ok", "counters": counters, "reason": "over budget"}
    counters["specs_enumerated_exhaustively"] = 1
    sample = None
    for metric in ("ENERGY", "LATENCY", "ENERGY_DELAY_PRODUCT"):
        def obj(x):
            return {"ENERGY": x[0], "LATENCY": x[1], "ENERGY_DELAY_PRODUCT": x[0] * x[1]}[metric]
        best_enum = min(space, key=obj) if space else None
        try:
            rows = H.result_rows(H.run_mapper(d, metric))
            best_map = min(H.objective(r, metric) for r in rows)
        except H.NoMapping:
            rows, best_map = None, None
        except H.MapperTimeout:
            counters["mapper_watchdog(inconclusive)"] = counters.get("mapper_watchdog(inconclusive)", 0) + 1
            continue
        except Exception as ex:
            if type(ex).__name__ == "InvalidMappingError" and space:
                viol.append({"sig": "mapper_aborts_on_oversubscribed_template", "witness": {"metric": metric, "error": str(ex)[:300],
                                                                                          "valid_enumerated_trees": len(space)}})
                continue
            raise
        counters["optima_compared"] = counters.get("optima_compared", 0) + 1
        if best_enum is None:
            if rows is not None:
                counters["enumerator_incomplete"] = counters.get("enumerator_incomplete", 0) + 1
            continue
        if rows is None:
            viol.append({"sig": "mapper_finds_no_mapping_but_valid_mappings_exist",
                         "witness": {"metric": metric, "enumerated_optimum": obj(best_enum), "tree": best_enum[3], "spec": gs.summary(d)}})
            continue
        e_opt = obj(best_enum)
        if best_map > e_opt and not H.close(best_map, e_opt, rel=2.0 ** (-16 if metric.startswith("ENERGY_D") else -18)):
            fin = [m["name"] for m in d["arch"]["mems"] if m.get("size", "inf") != "inf"]
            better = [x for x in space if obj(x) < best_map and not H.close(obj(x), best_map, rel=2.0 ** -16)]
            if better and all(any(abs(x[2].get(m, 0.0) - 1.0) <= 1e-6 for m in fin) for x in better):
                # every enumerated mapping that beats the mapper fills a memory exactly (C08 exact-fit finding)
                viol.append({"sig": "mapper_misses_exact_fit_optimum",
                             "witness": {"metric": metric, "mapper_best": best_map, "enumerated_optimum": e_opt, "ratio": best_map / e_opt,
                                         "better_tree": best_enum[3], "usage": best_enum[2], "spec": gs.summary(d)}})
                continue
            viol.append({"sig": f"mapper_misses_optimum:{metric}:{d['arch']['size_class']}",
                         "witness": {"metric": metric, "mapper_best": best_map, "enumerated_optimum": e_opt, "ratio": best_map / e_opt,
                                     "better_tree": best_enum[3], "spec": gs.summary(d)}})
        elif best_map < e_opt and not H.close(best_map, e_opt, rel=2.0 ** -16):
            counters["enumerator_incomplete"] = counters.get("enumerator_incomplete", 0) + 1
            counters["enumerator_incomplete:" + metric] = 1
            if sample is None:
                sample = {"enumerator_incomplete": True, "metric": metric, "mapper_best": best_map, "enumerated_optimum": e_opt,
                          "mapper_tree": min(rows, key=lambda r: H.objective(r, metric))["tree"], "spec": gs.summary(d)}
        vals = {round(obj(x), 6) for x in space}
        if len(vals) >= 2:
            nontriv.append(json.dumps([d["class"], d["workload"]["ranks"], metric, [m["size"] for m in d["arch"]["mems"]]]))
    if sample is None:
        sample = {"spec": gs.summary(d), "valid_trees": len(space)}
    return {"status": "violation" if viol else "ok", "violations": viol, "nontrivial": nontriv, "counters": counters, "sample": sample}
