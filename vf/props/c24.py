"""C24 - workload geometry matches enumeration of the iteration space."""
import itertools
import json
import random

ID = "C24"
LEVEL = "exploration"
CHUNK = 4
CASE_TIMEOUT = 900
REQUIRED_COUNTERS = ["bounds_checked", "tensor_sizes_checked", "stride_halo_pairs_checked"]
RULE = ("random workloads of 1-3 Einsums, 2-4 rank variables each with box iteration spaces (iteration_space_shape ranges "
        "with zero and non-zero lower bounds, or rank_sizes on simply-indexed ranks), extents <= 6, projections "
        "a*x + b*y + c with a,b in 0..3, c in 0..2; the iteration space is enumerated point by point: rank-variable "
        "bounds, operation counts, tensor sizes (distinct projected points; non-box image must raise) and stride/halo of "
        "every (rank, rank variable) pair (extent of the rank over tiles of 1 and 2 values of the variable) are compared "
        "with the frontend's answers; non-trivial = some tensor has a two-variable or strided projection; "
        "distinct = the workload description")
ASSUMPTIONS = ["box-shaped iteration spaces only (the property's precondition)",
               "coefficients are non-negative", "islpy here has no barvinok card(): a non-box image must raise"]
TECHNIQUE = "runtime monitoring: explicit enumeration of the iteration space as reference for the ISL/sympy geometry queries"

VARS = ["x", "y", "z", "u"]


def gen_cases(tier, seed):
    rnd = random.Random(f"C24-{seed}")
    n, per = (16, 20) if tier == "quick" else (128, 50)
    return [{"class": "c0" if i % 2 == 0 else "c_nonzero", "seed": rnd.randrange(2**31), "count": per} for i in range(n)]


def gen_workload(rnd, with_const):
    nv = rnd.randint(2, 4)
    vs = VARS[:nv]
    bounds = {}
    for v in vs:
        ext = rnd.randint(1, 6) if rnd.random() < 0.9 else 1
        lo = rnd.choice([0, 0, 0, 1, 2])
        bounds[v] = [lo, lo + ext]
    ne = rnd.randint(1, 3)
    einsums = []
    prev_out = None
    tcount = itertools.count()
    for i in range(ne):
        evs = sorted(rnd.sample(vs, rnd.randint(2, nv)))

        def proj(max_ranks=2):
            ranks = {}
            for j in range(rnd.randint(1, max_ranks)):
                x = rnd.random()
                if x < 0.5:
                    v = rnd.choice(evs)
                    terms = {v: 1}
                else:
                    a, b = rnd.sample(evs, 2)
                    terms = {a: rnd.choice([1, 1, 2, 3]), b: rnd.choice([1, 1, 2, 3])}
                    if rnd.random() < 0.2:
                        terms = {a: terms[a]}
                c = rnd.choice([1, 2]) if (with_const and rnd.random() < 0.6) else 0
                ranks[f"R{j}"] = {"terms": terms, "c": c}
            return ranks
        tensors = []
        if prev_out is not None and rnd.random() < 0.7:
            # read the previous output with the projection it was written with (same rank variables must be present)
            if all(v in evs for r in prev_out["ranks"].values() for v in r["terms"]):
                tensors.append({"name": prev_out["name"], "ranks": prev_out["ranks"], "output": False})
        for _ in range(rnd.randint(1, 2)):
            tensors.append({"name": f"T{next(tcount)}", "ranks": proj(), "output": False})
        out = {"name": f"T{next(tcount)}", "ranks": proj(), "output": True}
        tensors.append(out)
        # every rank variable of the Einsum must appear somewhere
        used = {v for t in tensors for r in t["ranks"].values() for v in r["terms"]}
        for v in evs:
            if v not in used:
                tensors[-2 if len(tensors) > 1 else 0]["ranks"][f"Z{v}"] = {"terms": {v: 1}, "c": 0}
        einsums.append({"name": f"E{i}", "vars": evs, "tensors": tensors})
        prev_out = out
    return {"bounds": bounds, "einsums": einsums, "use_rank_sizes": False}


def expr_str(r):
    parts = [(f"{a}*{v}" if a != 1 else v) for v, a in r["terms"].items()]
    if r["c"]:
        parts.append(str(r["c"]))
    return " + ".join(parts)


def to_yaml(w):
    shape = {v: f"{lo} <= {v} < {hi}" for v, (lo, hi) in w["bounds"].items()}
    es = []
    for e in w["einsums"]:
        tas = []
        for t in e["tensors"]:
            d = {"name": t["name"], "projection": {rk: expr_str(r) for rk, r in t["ranks"].items()}}
            if t["output"]:
                d["output"] = True
            tas.append(d)
        es.append({"name": e["name"], "tensor_accesses": tas})
    return {"workload": {"iteration_space_shape": shape, "bits_per_value": {"All": 8}, "einsums": es}}


def points(w, e):
    vs = e["vars"]
    return vs, itertools.product(*[range(*w["bounds"][v]) for v in vs])


def image(w, e, t):
    vs, pts = points(w, e)
    out = set()
    for p in pts:
        env = dict(zip(vs, p))
        out.add(tuple(sum(a * env[v] for v, a in r["terms"].items()) + r["c"] for r in t["ranks"].values()))
    return out


def is_box(img):
    if not img:
        return True
    dims = len(next(iter(img)))
    n = 1
    for d in range(dims):
        col = [p[d] for p in img]
        n *= max(col) - min(col) + 1
    return n == len(img)


def check_workload(w, counters):
    from .. import yamlgen
    from accelforge.frontend._workload_isl import _isl, _symbolic

    spec = yamlgen.load_spec(to_yaml(w))
    wl = spec.workload
    viol = []

    def bump(k):
        counters[k] = counters.get(k, 0) + 1

    for e in w["einsums"]:
        exp_b = {v: w["bounds"][v][1] - w["bounds"][v][0] for v in e["vars"]}
        got_b = {str(k): int(v) for k, v in _isl.get_rank_variable_bounds(wl, e["name"]).items()}
        bump("bounds_checked")
        if got_b != exp_b:
            viol.append({"sig": "rank_variable_bounds_wrong", "witness": {"einsum": e["name"], "got": got_b, "expected": exp_b}})
        n_ops = 1
        for v in e["vars"]:
            n_ops *= exp_b[v]
        got_ops = int(_isl.get_operation_space_size(wl, e["name"]))
        if got_ops != n_ops:
            viol.append({"sig": "operation_count_wrong", "witness": {"einsum": e["name"], "got": got_ops, "expected": n_ops}})
        # stride / halo
        sh = _symbolic.get_stride_and_halo_of_einsum(e["name"], wl)
        for t in e["tensors"]:
            got_t = {(str(rk), str(rv)): (int(s), int(h)) for (rk, rv), (s, h) in sh[t["name"]].items()}
            for rk, r in t["ranks"].items():
                for v in r["terms"]:
                    def extent(tile):
                        vals = []
                        others = [o for o in r["terms"] if o != v]
                        for xv in range(tile):
                            for op in itertools.product(*[range(exp_b[o]) for o in others]):
                                env = dict(zip(others, op))
                                env[v] = xv
                                vals.append(sum(a * env[q] for q, a in r["terms"].items()) + r["c"])
                        return max(vals) - min(vals) + 1
                    e1 = extent(1)
                    halo = e1 - 1
                    stride = (extent(2) - e1) if exp_b[v] >= 2 else r["terms"][v]
                    bump("stride_halo_pairs_checked")
                    g = got_t.get((rk, v))
                    if g is None:
                        viol.append({"sig": "stride_halo_missing", "witness": {"einsum": e["name"], "tensor": t["name"], "rank": rk, "var": v}})
                    elif g != (stride, halo):
                        if g[0] == stride and g[1] == halo + r["c"] and r["c"]:
                            sig = "constant_offset_in_halo"
                        elif g[0] != stride:
                            sig = "stride_wrong"
                        else:
                            sig = "halo_wrong"
                        viol.append({"sig": sig, "witness": {"einsum": e["name"], "tensor": t["name"], "rank": rk, "var": v,
                                                             "projection": expr_str(r), "bounds": exp_b,
                                                             "got_stride_halo": list(g), "expected": [stride, halo]}})
    # tensor sizes
    tensors = {}
    for e in w["einsums"]:
        for t in e["tensors"]:
            tensors.setdefault(t["name"], []).append((e, t))
    for name, uses in tensors.items():
        writers = [(e, t) for e, t in uses if t["output"]]
        canon = writers or uses
        img = None
        for e, t in canon:
            im = image(w, e, t)
            img = im if img is None else (img & im)
        bump("tensor_sizes_checked")
        try:
            got = _isl.get_tensor_size(wl, name)
            err = None
        except (RuntimeError, ValueError) as ex:
            got, err = None, ex
        box = is_box(img)
        if err is not None:
            bump("non_box_image_rejected" if not box else "box_image_rejected")
            if box:
                viol.append({"sig": "box_image_rejected", "witness": {"tensor": name, "error": str(err)[:200], "n_points": len(img)}})
        else:
            if int(got) != len(img):
                viol.append({"sig": "tensor_size_wrong" + ("" if box else ":non_box_image"),
                             "witness": {"tensor": name, "got": int(got), "enumerated_points": len(img), "image_is_box": box,
                                         "projection": {rk: expr_str(r) for rk, r in canon[0][1]["ranks"].items()}}})
    return viol


def run_case(case):
    counters, viol, nontriv, sample = {}, [], [], None
    if "workload" in case:
        v = check_workload(case["workload"], counters)
        return {"status": "violation" if v else "ok", "violations": v, "counters": counters, "nontrivial": ["explicit"]}
    rnd = random.Random(case["seed"])
    per_sig = {}
    for _ in range(case["count"]):
        w = gen_workload(rnd, case["class"] == "c_nonzero")
        try:
            v = check_workload(w, counters)
        except Exception as ex:
            counters["generator_rejected"] = counters.get("generator_rejected", 0) + 1
            counters["generator_rejected:" + type(ex).__name__] = counters.get("generator_rejected:" + type(ex).__name__, 0) + 1
            continue
        for x in v:
            per_sig[x["sig"]] = per_sig.get(x["sig"], 0) + 1
            if per_sig[x["sig"]] <= 2:
                x["case"] = {"class": case["class"], "workload": w}
                viol.append(x)
        if any(len(r["terms"]) > 1 or max(r["terms"].values()) > 1 for e in w["einsums"] for t in e["tensors"] for r in t["ranks"].values()):
            nontriv.append(json.dumps(w, sort_keys=True))
            if sample is None:
                sample = to_yaml(w)
    for s, c in per_sig.items():
        counters["violating_workloads:" + s] = c
    return {"status": "violation" if viol else "ok", "violations": viol, "nontrivial": nontriv,
            "counters": counters, "sample": sample}
