"""C07 - symbolic cost formulas agree with concrete evaluation at every tile assignment."""
import itertools
import json
import random

from ..gen import specs as gs

ID = "C07"
LEVEL = "exploration"
CHUNK = 1
CASE_TIMEOUT = 1500
REQUIRED_COUNTERS = ["templates_recorded", "assignments_compared", "pruned_away_assignments_compared", "frame_values_compared"]
RULE = ("single-Einsum specs of the small-spec family (bounds with several divisors, 2-3 memory levels, leak power, "
        "bits overrides); while the real mapper runs, wrappers on _make_tile_shapes / run_model record every pmapping "
        "template (its nodes with symbolic tile shapes), the symbolic dictionaries the model returned for it and the "
        "frame of tile shapes it produced. Offline, for each template, the formulas are compiled exactly as the code does "
        "(compile_dict -> the shared lambdify cache, float32 arguments) and evaluated at (a) the rows the mapper kept and "
        "(b) further perfectly factorising assignments from an exhaustive chain enumeration (so pruned-away points are "
        "covered); the same assignment is substituted into the template, rebuilt as a plain tree and evaluated concretely "
        "by evaluate_mapping; energy, latency and per-memory usage must agree (1e-5 relative: float32 formulas); for kept rows the "
        "values the code itself wrote into the frame must agree with the concrete evaluation as well. One class has a single "
        "latency-bearing component with a non-power-of-two throughput (plain-sum latency with non-dyadic rational coefficients). "
        "non-trivial = template with >= 2 free tile-shape symbols; distinct = (template, assignment)")
ASSUMPTIONS = ["single-Einsum templates (a template of a multi-Einsum spec cannot be evaluated standalone through the public API)",
               "templates are visited in mapper order, so structurally equal formulas with different symbol lists share the lambdify cache as in production"]
TECHNIQUE = "runtime monitoring: recorded symbolic formulas of every template re-evaluated at exhaustive tile assignments vs concrete model evaluation"


def gen_cases(tier, seed):
    rnd = random.Random(f"C07-{seed}")
    n = 24 if tier == "quick" else 240
    cases = []
    for i in range(n):
        d = gs.gen_spec(rnd, rnd.choice(["mm1", "mm1", "mv1", "ew1"]), levels=rnd.choice([2, 2, 3]),
                        size_class=rnd.choice(["inf", "generous", "tight"]))
        for rv in d["workload"]["ranks"]:
            d["workload"]["ranks"][rv] = rnd.choice([4, 6, 8, 9, 12, 2, 3])
        if rnd.random() < 0.4:
            for m in d["arch"]["mems"]:
                m["leak"] = rnd.choice([0, 0.5])
        cls_extra = ""
        if i % 3 == 1:
            # ONE latency-bearing component with a throughput that is not a power of two (3, 5, 6, 7, 12): the latency
            # formula then stays a plain sum with non-dyadic rational coefficients (1/3, 64/3) instead of a Max of several
            which = rnd.randrange(len(d["arch"]["mems"]) + 1)
            for k, m in enumerate(d["arch"]["mems"]):
                tp = rnd.choice([3, 5, 6, 7, 12]) if k == which else "inf"
                m["read_tp"], m["write_tp"] = tp, (tp if rnd.random() < 0.7 else "inf" if tp == "inf" else rnd.choice([3, 5, 7]))
            d["arch"]["mac"]["tp"] = rnd.choice([3, 5, 6, 7]) if which == len(d["arch"]["mems"]) else "inf"
            cls_extra = "/single-latency"
        cases.append({"class": d["class"].split("/")[0] + "/" + str(d["arch"]["levels"]) + "L" + cls_extra, "desc": d,
                      "metrics": rnd.choice(["ENERGY", "LATENCY", "ENERGY|LATENCY"]) if not cls_extra else rnd.choice(["LATENCY", "ENERGY|LATENCY"]),
                      "seed": rnd.randrange(2**31),
                      "imperfect": False})
    return cases


def template_nodes(mapping):
    out = []
    for n in mapping.nodes:
        k = type(n).__name__
        if k == "Reservation":
            continue
        if k in ("Storage", "Toll"):
            nd = {"t": "S", "tensors": [str(x) for x in n.tensors], "comp": str(n.component)}
            if k == "Toll":
                nd["toll"] = True
            out.append(nd)
        elif k == "Temporal":
            ts = n.tile_shape
            out.append({"t": "T", "rv": str(n.rank_variable), "tile": (int(ts) if _is_num(ts) else str(ts))})
        elif k == "Compute":
            out.append({"t": "C", "einsum": str(n.einsum), "comp": str(n.component)})
        else:
            out.append({"t": "?", "kind": k})
    return out


def _is_num(x):
    try:
        return float(x) == int(float(x)) and not hasattr(x, "free_symbols") or (hasattr(x, "is_number") and x.is_number)
    except Exception:
        return False


def assignments(tmpl, ranks, limit, rnd):
    """Perfectly factorising assignments of the symbolic tile shapes of a template."""
    per_rv = {}
    for n in tmpl:
        if n["t"] == "T":
            per_rv.setdefault(n["rv"], []).append(n["tile"])
    options = []
    names = []
    for rv, tiles in per_rv.items():
        syms = [t for t in tiles if isinstance(t, str)]
        # enumerate chains: walk loops outer->inner; numeric tiles are fixed
        def rec(i, cur, acc):
            if i == len(tiles):
                yield list(acc)
                return
            t = tiles[i]
            if not isinstance(t, str):
                if cur % t == 0 and t <= cur:
                    yield from rec(i + 1, t, acc)
                return
            for d in range(1, cur + 1):
                if cur % d == 0:
                    # the remaining fixed tiles must still fit
                    yield from rec(i + 1, d, acc + [(t, d)])
        opts = list(rec(0, ranks[rv], []))
        options.append(opts)
    total = 1
    for o in options:
        total *= max(1, len(o))
    if total == 0:
        return []
    combos = itertools.product(*options)
    if total > limit:
        allc = []
        for idx, c in enumerate(combos):
            allc.append(c)
            if idx > 4000:
                break
        combos = rnd.sample(allc, min(limit, len(allc)))
    return [dict(x for part in c for x in part) for c in combos]


def run_case(case):
    import numpy as np
    from .. import harness as H
    from accelforge.mapper.FFM._make_pmappings.make_pmappings_from_templates import make_tile_shapes as mts
    from accelforge.model.main import InvalidMappingError
    d, metrics = case["desc"], case["metrics"]
    rnd = random.Random(case["seed"])
    counters, viol, nontriv = {}, [], []

    def bump(k, n=1):
        counters[k] = counters.get(k, 0) + n
    recorded = []
    orig_inner, orig_run = mts._make_tile_shapes, mts.run_model
    cur = {}

    def run_model_w(job):
        out = orig_run(job)
        cur["model"] = out
        return out

    def inner_w(job):
        cur.clear()
        df, t2m = orig_inner(job)
        try:
            symbols, symbolic_df, per_mem, usage_df, _, actions_df = cur["model"]
            recorded.append({"tmpl": template_nodes(job.mapping), "symbols": list(symbols), "symbolic": dict(symbolic_df),
                             "per_mem": dict(per_mem), "rows": df[[s.name for s in symbols]].to_dict("records") if len(symbols) else [{}],
                             "frame": df[[c for c in df.columns if c.startswith("Total" + H.SEP) and "mapping" not in c]].to_dict("records"),
                             "metrics": job.metrics})
        except Exception as ex:
            bump("recorder_failed:" + type(ex).__name__)
        return df, t2m
    mts._make_tile_shapes, mts.run_model = inner_w, run_model_w
    try:
        try:
            H.run_mapper(d, metrics)
        except H.NoMapping:
            pass
    finally:
        mts._make_tile_shapes, mts.run_model = orig_inner, orig_run
    bump("templates_recorded", len(recorded))
    rnd.shuffle(recorded)
    sample = None
    size = {m["name"]: m["size"] for m in d["arch"]["mems"]}
    for rec in recorded[:20]:
        symbols = rec["symbols"]
        if any(n["t"] == "?" for n in rec["tmpl"]):
            bump("templates_with_unsupported_nodes")
            continue
        try:
            import sympy
            from accelforge.util._mathfuncs import NUMPY_FLOAT_TYPE
            to_sp = {k: sympy.sympify(v) for k, v in rec["symbolic"].items()}
            to_sp_mem = {k: sympy.sympify(v) for k, v in rec["per_mem"].items()}
            comp = mts.compile_dict(symbols, to_sp)
            comp_mem = mts.compile_dict(symbols, to_sp_mem)
        except Exception as ex:
            bump("compile_failed:" + type(ex).__name__)
            continue
        kept = [{k: int(v) for k, v in r.items()} for r in rec["rows"][:6]]
        frame_of = {tuple(sorted(k.items())): f for k, f in zip(kept, rec.get("frame", [])[:6])}
        extra = assignments(rec["tmpl"], d["workload"]["ranks"], 8, rnd)
        seen = set()
        for origin, asg in [("kept", a) for a in kept] + [("enumerated", a) for a in extra]:
            key = tuple(sorted(asg.items()))
            if key in seen or set(asg) != {s.name for s in symbols}:
                continue
            seen.add(key)
            tree = []
            for n in rec["tmpl"]:
                n = dict(n)
                if n["t"] == "T" and isinstance(n["tile"], str):
                    n["tile"] = asg[n["tile"]]
                tree.append(n)
            args = [np.array([asg[s.name]], dtype=NUMPY_FLOAT_TYPE) for s in symbols]
            try:
                vals = {k: float(np.asarray(f(*args)).ravel()[0]) if symbols else float(f()) for k, f in comp.items()}
                mem = {k: float(np.asarray(f(*args)).ravel()[0]) if symbols else float(f()) for k, f in comp_mem.items()}
            except Exception as ex:
                bump("formula_evaluation_failed:" + type(ex).__name__)
                continue
            try:
                ev = H.eval_tree(d, tree)
            except InvalidMappingError:
                over = [k for k, v in mem.items() if v > 1 + 1e-6]
                bump("assignments_invalid_in_both" if over else "assignments_invalid_only_concretely")
                if not over:
                    viol.append({"sig": "formula_says_fits_model_says_oversubscribed", "witness": {"assignment": asg, "formula_usage": mem, "tree": tree}})
                continue
            except Exception as ex:
                bump("concrete_evaluation_failed:" + type(ex).__name__)
                continue
            bump("assignments_compared")
            if origin == "enumerated":
                bump("pruned_away_assignments_compared")
            e_f = vals.get("Total<SEP>energy")
            if e_f is None and "Total<SEP>dynamic_energy" in vals:
                e_f = vals["Total<SEP>dynamic_energy"] + vals.get("Total<SEP>leak_energy", 0.0)
            l_f = vals.get("Total<SEP>latency")
            bad = []
            if e_f is not None and not H.close(e_f, float(ev.energy()), rel=1e-5, abs_tol=1e-6):
                bad.append(["energy", e_f, float(ev.energy())])
            if l_f is not None and not H.close(l_f, float(ev.latency()), rel=1e-5, abs_tol=1e-6):
                bad.append(["latency", l_f, float(ev.latency())])
            ru = {k: float(v) for k, v in ev.resource_usage().items()}
            for k, v in mem.items():
                mname = k.split(H.SEP)[-1]
                if size.get(mname, "inf") == "inf":
                    continue
                if mname in ru and not H.close(v, ru[mname], rel=1e-5, abs_tol=1e-6):
                    bad.append(["usage:" + mname, v, ru[mname]])
            # the values the code itself wrote into the frame for this row (computed by ITS compiled formulas, after its
            # own symbolic conversions) must agree with the concrete evaluation too
            fr = frame_of.get(key) if origin == "kept" else None
            if fr:
                bump("frame_values_compared")
                fbad = []
                fe = fr.get("Total<SEP>energy")
                if fe is None and "Total<SEP>dynamic_energy" in fr:
                    fe = fr["Total<SEP>dynamic_energy"] + fr.get("Total<SEP>leak_energy", 0.0)
                if fe is not None and not H.close(float(fe), float(ev.energy()), rel=1e-5, abs_tol=1e-6):
                    fbad.append(["energy", float(fe), float(ev.energy())])
                fl = fr.get("Total<SEP>latency")
                if fl is not None and not H.close(float(fl), float(ev.latency()), rel=1e-5, abs_tol=1e-6):
                    fbad.append(["latency", float(fl), float(ev.latency())])
                if fbad:
                    viol.append({"sig": "frame_value_differs_from_concrete:" + "+".join(sorted(b[0] for b in fbad)),
                                 "witness": {"assignment": asg, "differences(frame, concrete)": fbad, "tree": tree, "ranks": d["workload"]["ranks"]}})
            if bad:
                viol.append({"sig": "formula_differs_from_concrete:" + "+".join(sorted({b[0].split(":")[0] for b in bad})) + ":" + origin,
                             "witness": {"assignment": asg, "differences(formula, concrete)": bad, "tree": tree, "ranks": d["workload"]["ranks"]}})
            if len(symbols) >= 2:
                nontriv.append(json.dumps([rec["tmpl"], sorted(asg.items())], sort_keys=True))
            if sample is None and len(symbols) >= 2:
                sample = {"template": rec["tmpl"], "assignment": asg, "formula": {"energy": e_f, "latency": l_f}, "concrete": {"energy": float(ev.energy()), "latency": float(ev.latency())}}
    seen_s, keep = set(), []
    for v in viol:
        if v["sig"] not in seen_s:
            seen_s.add(v["sig"])
            keep.append(v)
    return {"status": "violation" if keep else "ok", "violations": keep, "nontrivial": nontriv, "counters": counters, "sample": sample}
