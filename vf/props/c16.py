"""C16 - tolerance settings stay within their documented optimality bound."""
import copy
import json
import random

from ..gen import specs as gs

ID = "C16"
LEVEL = "exploration"
CHUNK = 1
CASE_TIMEOUT = 900
REQUIRED_COUNTERS = ["tolerance_runs", "returned_mappings_validated"]
RULE = ("specs of the small-spec family (tight capacities over-represented; half of them re-expressed in other units so "
        "that the optimum is of order 1 - between 0.05 and 20 - where logarithmic rounding buckets change sign) x objective_tolerance / "
        "resource_usage_tolerance in {0.01, 0.1, 0.5} applied separately and together, metrics ENERGY / LATENCY / EDP: "
        "the best returned objective must lie in [exact, (1+t) x exact] where exact is the zero-tolerance optimum of the "
        "same spec, and every returned mapping must be accepted by the model on its own (capacity included) when "
        "re-evaluated from its user-facing tree. non-trivial = the spec has a finite inner memory or >= 2 Einsums; "
        "distinct = (spec, tolerances, metric)")
ASSUMPTIONS = ["exact optimum = the mapper at zero tolerance (its own optimality is C01's business)", "float32 tolerance 2^-18"]
TECHNIQUE = "runtime monitoring: bound check of tolerance runs against the recorded zero-tolerance optimum + independent validity re-evaluation"

TOLS = [0.01, 0.1, 0.5]


def gen_cases(tier, seed):
    rnd = random.Random(f"C16-{seed}")
    n = 32 if tier == "quick" else 200
    cases = []
    for i in range(n):
        d = gs.gen_spec(rnd, rnd.choice(["mm1", "mm1", "mv1", "chain2", "fanin2", "mvchain2"]), levels=rnd.choice([2, 2, 3]),
                        size_class=rnd.choice(["tight", "tight", "generous", "inf"]))
        cases.append({"class": d["class"].split("/")[0] + "/" + d["arch"]["size_class"], "desc": d,
                      "metric": rnd.choice(["ENERGY", "LATENCY", "ENERGY_DELAY_PRODUCT"]), "seed": rnd.randrange(2**31),
                      "unit_scale": i % 2 == 1})
        if cases[-1]["unit_scale"]:
            cases[-1]["class"] += "/unit-scale"
            if i % 4 == 1:
                # DENSE class: larger bounds on a tight buffer, backing store far more expensive than the buffer, free
                # compute, energy only: a dense range of objective values, so that alternatives between (1+t) and
                # (1+t)^2 times the optimum exist; the same spec is expressed in three different units
                d = gs.gen_spec(rnd, rnd.choice(["mm1", "mv1"]), levels=2, size_class="tight", costs="tradeoff")
                for rv in d["workload"]["ranks"]:
                    d["workload"]["ranks"][rv] = rnd.choice([8, 12, 16])
                sizes = sorted(gs.tensor_sizes(d["workload"]).values())
                ratio = rnd.choice([1e-1, 1e-2, 1e-3])
                m0, m1 = d["arch"]["mems"]
                m0.update(read_e=1.0, write_e=1.0, read_tp="inf", write_tp="inf", keep="All", may_keep="All")
                m1.update(size=rnd.randint(max(8, sizes[0] // 8), max(16, sizes[-1] // 2)) * d["workload"]["bits"],
                          keep=rnd.choice(["All", "Nothing"]), may_keep="All", read_e=ratio, write_e=ratio, read_tp="inf", write_tp="inf")
                d["arch"]["mac"].update(energy=rnd.choice([0, 0, ratio]), tp=1)
                cases.pop()
                for _ in range(3):
                    cases.append({"class": d["class"].split("/")[0] + "/tight-dense/unit-scale", "desc": d, "metric": "ENERGY",
                                  "seed": rnd.randrange(2**31), "unit_scale": True, "target": rnd.uniform(0.68, 0.99)})
    return cases


def run_case(case):
    from .. import harness as H
    d, metric = case["desc"], case["metric"]
    rnd = random.Random(case["seed"])
    counters, viol, nontriv = {}, [], []

    def run(desc):
        try:
            return H.result_rows(H.run_mapper(desc, metric))
        except H.NoMapping:
            return None
    base = run(d)
    if base is None:
        return {"status": "ok", "counters": {"no_valid_mapping": 1}}
    exact = min(H.objective(r, metric) for r in base)
    if case.get("unit_scale") and exact > 0:
        # the same spec in other UNITS (joules instead of picojoules): costs rescaled so that the optimum - and
        # with it the per-Einsum parts the tolerance rounding works on - is of order 1
        # mostly just below 1: the bucket around log(x) = 0 is where rounding toward zero and rounding to nearest differ
        target = case.get("target") or (rnd.uniform(0.68, 0.99) if rnd.random() < 0.7 else 10 ** rnd.uniform(-1.3, 1.3))
        d = copy.deepcopy(d)
        e_scale = target / exact if metric == "ENERGY" else ((target / exact) ** 0.5 if metric == "ENERGY_DELAY_PRODUCT" else 1.0)
        l_scale = target / exact if metric == "LATENCY" else ((target / exact) ** 0.5 if metric == "ENERGY_DELAY_PRODUCT" else 1.0)
        for mm in d["arch"]["mems"]:
            for k in ("read_e", "write_e"):
                if isinstance(mm.get(k), (int, float)):
                    mm[k] = mm[k] * e_scale
            for k in ("read_tp", "write_tp"):
                if isinstance(mm.get(k), (int, float)):
                    mm[k] = mm[k] / l_scale
        d["arch"]["mac"]["energy"] = d["arch"]["mac"]["energy"] * e_scale
        d["arch"]["mac"]["tp"] = d["arch"]["mac"]["tp"] / l_scale
        base = run(d)
        if base is None:
            return {"status": "inconclusive", "reason": "rescaled spec has no mapping", "counters": counters}
        exact = min(H.objective(r, metric) for r in base)
        counters["unit_scale_specs"] = 1
    combos = [(rnd.choice(TOLS), 0), (0, rnd.choice(TOLS)), (rnd.choice(TOLS), rnd.choice(TOLS))]
    if case.get("unit_scale"):
        combos = [(0.5, 0), (rnd.choice(TOLS), 0), (0.5, rnd.choice(TOLS))]
    sample = None
    for t_obj, t_res in combos:
        d2 = copy.deepcopy(d)
        d2["mapper"]["objective_tolerance"] = t_obj
        d2["mapper"]["resource_usage_tolerance"] = t_res
        rows = run(d2)
        counters["tolerance_runs"] = counters.get("tolerance_runs", 0) + 1
        if rows is None:
            # which of the two tolerances is responsible?
            which = "objective_tolerance" if t_res == 0 else ("resource_usage_tolerance" if t_obj == 0 else None)
            if which is None:
                d3 = copy.deepcopy(d)
                d3["mapper"]["objective_tolerance"] = t_obj
                d3["mapper"]["resource_usage_tolerance"] = 0
                which = "objective_tolerance" if run(d3) is None else "resource_usage_tolerance_or_both"
            viol.append({"sig": "tolerance_loses_all_mappings:" + which,
                         "witness": {"objective_tolerance": t_obj, "resource_usage_tolerance": t_res, "exact": exact, "spec": gs.summary(d)}})
            continue
        best = min(H.objective(r, metric) for r in rows)
        if best > exact * (1 + t_obj) and not H.close(best, exact * (1 + t_obj)):
            viol.append({"sig": "best_exceeds_tolerance_bound" + (":resource_only" if t_obj == 0 else ""),
                         "witness": {"metric": metric, "objective_tolerance": t_obj, "resource_usage_tolerance": t_res, "exact": exact, "best": best,
                                     "ratio": best / exact if exact else None}})
        if best < exact and not H.close(best, exact):
            viol.append({"sig": "tolerance_run_beats_exact_optimum",
                         "witness": {"metric": metric, "objective_tolerance": t_obj, "resource_usage_tolerance": t_res, "exact": exact, "best": best}})
        for r in rows[:6]:
            counters["returned_mappings_validated"] = counters.get("returned_mappings_validated", 0) + 1
            try:
                ev = H.eval_tree(d, r["tree"])
                over = {m: float(u) for m, u in ev.resource_usage().items() if float(u) > 1 + 1e-6}
                if over:
                    viol.append({"sig": "returned_mapping_over_capacity", "witness": {"usage": over, "resource_usage_tolerance": t_res, "tree": r["tree"]}})
            except Exception as ex:
                viol.append({"sig": f"returned_mapping_invalid:{type(ex).__name__}",
                             "witness": {"objective_tolerance": t_obj, "resource_usage_tolerance": t_res, "error": str(ex)[:300], "tree": r["tree"]}})
        if sample is None:
            sample = {"spec": gs.summary(d), "metric": metric, "exact": exact, "objective_tolerance": t_obj,
                      "resource_usage_tolerance": t_res, "best": best}
        if any(m["size"] != "inf" for m in d["arch"]["mems"][1:]) or len(d["workload"]["einsums"]) >= 2:
            nontriv.append(json.dumps([d["class"], d["workload"]["ranks"], t_obj, t_res, metric, [m["size"] for m in d["arch"]["mems"]]]))
    return {"status": "violation" if viol else "ok", "violations": viol[:4], "nontrivial": nontriv, "counters": counters, "sample": sample}
