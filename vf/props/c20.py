"""C20 - mapper results do not depend on scheduling, hashing or caching."""
import hashlib
import json
import os
import random
import shutil
import subprocess
import sys
import tempfile

from .. import ROOT, WORK
from ..gen import specs as gs

ID = "C20"
LEVEL = "exploration"
CHUNK = 1
MAX_JOBS = 8
CASE_TIMEOUT = 2400
REQUIRED_COUNTERS = ["runs_compared", "schedule_perturbed_parallel_calls", "distinct_schedules", "warm_cache_hits_observed"]
RULE = ("per spec (1-3 Einsums, ENERGY|LATENCY on trade-off cost tables so the front has several rows, exact ties included) "
        "a baseline run in a fresh process (1 worker, PYTHONHASHSEED=0, no cache, no perturbation; run twice and required "
        "to be self-identical) is compared with runs that differ only in: a seeded permutation of execution order and of "
        "arrival order of every internal parallel() call (hook, separately and together), real loky pools with jitter "
        "(n_jobs 4; thorough 2/4/16), PYTHONHASHSEED, a cold then warm cache_dir (spec loaded from ONE fixed file path so that the cache can hit; hits are observed through the number of stored entries), and a cache_dir used before for a different request (a subset of the Einsums, then all; all, then the subset). A run's record is the multiset of "
        "(energy, latency, usage, canonical tree) rows. non-trivial = the baseline front has >= 2 rows; distinct = (spec, "
        "perturbation); the number of distinct schedules actually applied is read from the hook's log")
ASSUMPTIONS = ["only seeded permutations and a few real pool sizes are explored, not all interleavings",
               "float comparison of objective vectors at 2^-18 relative"]
TECHNIQUE = "runtime monitoring: record/compare of whole mapper runs under injected schedule permutations, delays, hash seeds and cache states"


def gen_cases(tier, seed):
    rnd = random.Random(f"C20-{seed}")
    n = 4 if tier == "quick" else 14
    cases = []
    kinds = ["mm1", "chain2", "fanin2", "mvchain2", "mm1", "chain2"]
    for i in range(n):
        d = gs.gen_spec(rnd, kinds[i % len(kinds)], levels=2 if i % 3 else 3, costs="tradeoff",
                        size_class=rnd.choice(["tight", "inf", "generous"]))
        cases.append({"class": d["class"], "desc": d, "tier": tier, "seed": rnd.randrange(2**31)})
    return cases


def one_run(desc, metrics, env_extra, n_jobs=1, cache_dir=None, timeout=600, einsum_names=None, spec_path=None):
    os.makedirs(WORK, exist_ok=True)
    fd, inp = tempfile.mkstemp(prefix="c20-in-", suffix=".json", dir=WORK)
    os.close(fd)
    outp = inp.replace("-in-", "-out-")
    logp = inp.replace("-in-", "-log-")
    with open(inp, "w") as f:
        json.dump({"desc": desc, "metrics": metrics, "n_jobs": n_jobs, "cache_dir": cache_dir, "einsum_names": einsum_names,
                   "spec_path": spec_path}, f)
    env = dict(os.environ)
    for k in list(env):
        if k.startswith("ACCELFORGE_VERIF_SCHEDULE"):
            del env[k]
    env.update(env_extra)
    env["ACCELFORGE_VERIF"] = "1"
    env["ACCELFORGE_VERIF_SCHEDULE_LOG"] = logp
    env["PYTHONPATH"] = ROOT + (":" + env["PYTHONPATH"] if env.get("PYTHONPATH") else "")
    rec = None
    try:
        subprocess.run([sys.executable, "-m", "vf.maprun", inp, outp], env=env, timeout=timeout, capture_output=True, cwd=ROOT)
        if os.path.exists(outp):
            rec = json.load(open(outp))
    except subprocess.TimeoutExpired:
        rec = {"ok": False, "error": "watchdog"}
    sched = []
    if os.path.exists(logp):
        sched = [l.split() for l in open(logp)]
    for p in (inp, outp, logp):
        try:
            os.remove(p)
        except OSError:
            pass
    return rec or {"ok": False, "error": "no record"}, sched


def canon(rows):
    return sorted((round(r["energy"], 3), round(r["latency"], 3), r["tree"]) for r in rows)


def vectors(rows):
    return sorted((round(r["energy"], 3), round(r["latency"], 3)) for r in rows)


def run_case(case):
    d = case["desc"]
    rnd = random.Random(case["seed"])
    metrics = "ENERGY|LATENCY"
    counters, viol = {}, []

    def bump(k, n=1):
        counters[k] = counters.get(k, 0) + n
    base, _ = one_run(d, metrics, {"PYTHONHASHSEED": "0"})
    base2, _ = one_run(d, metrics, {"PYTHONHASHSEED": "0"})
    if not base.get("ok") or not base2.get("ok"):
        return {"status": "inconclusive", "reason": "baseline run failed: " + str(base.get("error") or base2.get("error"))[:200]}
    if base["rows"] is None:
        return {"status": "ok", "counters": {"no_valid_mapping": 1}}
    if canon(base["rows"]) != canon(base2["rows"]):
        return {"status": "violation", "violations": [{"sig": "baseline_not_repeatable", "witness": {"first": vectors(base["rows"])[:10], "second": vectors(base2["rows"])[:10]}}]}
    thorough = case.get("tier") == "thorough"
    variants = []
    n_sched = 6 if not thorough else 24
    for i in range(n_sched):
        mode = ["both", "exec", "arrival"][i % 3]
        variants.append((f"schedule:{mode}", {"PYTHONHASHSEED": "0", "ACCELFORGE_VERIF_SCHEDULE_SEED": str(rnd.randrange(1, 10**9)),
                                              "ACCELFORGE_VERIF_SCHEDULE_MODE": mode}, 1, None))
    for hs in ([1, 2] if not thorough else [1, 2, 3, 4, 5, 6]):
        variants.append(("hashseed", {"PYTHONHASHSEED": str(hs)}, 1, None))
    for nj in ([4] if not thorough else [2, 4, 16]):
        variants.append((f"n_jobs", {"PYTHONHASHSEED": "0", "ACCELFORGE_VERIF_SCHEDULE_SEED": str(rnd.randrange(1, 10**9)),
                                     "ACCELFORGE_VERIF_SCHEDULE_JITTER_MS": "3"}, nj, None))
    cache = os.path.join(WORK, f"c20-cache-{os.getpid()}-{rnd.randrange(10**9)}")
    variants.append(("cache_cold", {"PYTHONHASHSEED": "0"}, 1, cache))
    variants.append(("cache_warm", {"PYTHONHASHSEED": "0"}, 1, cache))
    schedules = set()
    bvec, bcan = vectors(base["rows"]), canon(base["rows"])
    per_kind = {}
    import concurrent.futures as cf
    # cache_cold must finish before cache_warm starts; everything else is independent
    # runs that share a cache_dir load the spec from ONE file path, like a script that is run again (the path the
    # Spec was loaded from is part of the cache key; with a fresh temporary file per run the cache would never hit)
    spec_path = os.path.join(WORK, f"c20-spec-{os.getpid()}-{rnd.randrange(10**9)}.yaml")

    def launch(v):
        return one_run(d, metrics, v[1], n_jobs=v[2], cache_dir=v[3], spec_path=spec_path if v[3] else None)
    with cf.ThreadPoolExecutor(max_workers=3) as ex:
        futs = {i: ex.submit(launch, v) for i, v in enumerate(variants) if v[0] != "cache_warm"}
        results = {i: f.result() for i, f in futs.items()}
    for i, v in enumerate(variants):
        if v[0] == "cache_warm":
            results[i] = launch(v)
    for i, (kind, env, nj, cdir) in enumerate(variants):
        rec, sched = results[i]
        if not rec.get("ok"):
            bump("inconclusive_runs")
            counters["inconclusive:" + str(rec.get("error"))[:60]] = 1
            continue
        bump("runs_compared")
        if kind == "cache_warm":
            if rec.get("cache_entries_before", 0) >= 1 and rec.get("cache_entries_after") == rec.get("cache_entries_before"):
                bump("warm_cache_hits_observed")
            else:
                bump("warm_cache_run_missed_the_cache")
        bump("schedule_perturbed_parallel_calls", len(sched))
        if sched:
            schedules.add(hashlib.sha1(json.dumps(sched).encode()).hexdigest()[:10])
        if rec["rows"] is None:
            viol.append({"sig": f"validity_depends_on:{kind.split(':')[0]}", "witness": {"variant": kind, "env": env}})
            continue
        v, c = vectors(rec["rows"]), canon(rec["rows"])
        if v != bvec:
            per_kind.setdefault(("front", kind.split(":")[0]), []).append(
                {"variant": kind, "env": {k: x for k, x in env.items() if "SCHEDULE" in k or k == "PYTHONHASHSEED"}, "n_jobs": nj,
                 "baseline_front": bvec[:12], "front": v[:12]})
        elif c != bcan:
            per_kind.setdefault(("structure", kind.split(":")[0]), []).append(
                {"variant": kind, "env": {k: x for k, x in env.items() if "SCHEDULE" in k or k == "PYTHONHASHSEED"}, "n_jobs": nj,
                 "rows_with_different_structure": sum(1 for a, b in zip(bcan, c) if a != b), "rows": len(c)})
    shutil.rmtree(cache, ignore_errors=True)
    # ---- cache histories: the same cache_dir used for a DIFFERENT request first (subset of the Einsums, then all;
    # all, then the subset). The later request must return what it returns without any cache.
    enames = [e["name"] for e in d["workload"]["einsums"]]
    if len(enames) >= 2:
        sub = [enames[0]]
        cache2 = os.path.join(WORK, f"c20-cache2-{os.getpid()}-{rnd.randrange(10**9)}")
        one_run(d, metrics, {"PYTHONHASHSEED": "0"}, cache_dir=cache2, einsum_names=sub, spec_path=spec_path)
        rec, _ = one_run(d, metrics, {"PYTHONHASHSEED": "0"}, cache_dir=cache2, spec_path=spec_path)
        bump("cache_history_runs")
        if not rec.get("ok"):
            bump("inconclusive_runs")
        if rec.get("ok") and rec["rows"] is not None:
            if vectors(rec["rows"]) != bvec:
                viol.append({"sig": "front_depends_on:cache_history", "witness": {"history": ["einsum_names=" + str(sub), "all Einsums"],
                                                                                   "baseline_front": bvec[:10], "front": vectors(rec["rows"])[:10]}})
            elif canon(rec["rows"]) != bcan:
                viol.append({"sig": "mapping_structure_depends_on:cache_history", "witness": {"history": ["einsum_names=" + str(sub), "all Einsums"]}})
        elif rec.get("ok") and rec["rows"] is None:
            viol.append({"sig": "validity_depends_on:cache_history", "witness": {"history": ["einsum_names=" + str(sub), "all Einsums"]}})
        shutil.rmtree(cache2, ignore_errors=True)
        cache3 = os.path.join(WORK, f"c20-cache3-{os.getpid()}-{rnd.randrange(10**9)}")
        fresh, _ = one_run(d, metrics, {"PYTHONHASHSEED": "0"}, einsum_names=sub)
        one_run(d, metrics, {"PYTHONHASHSEED": "0"}, cache_dir=cache3, spec_path=spec_path)
        rec, _ = one_run(d, metrics, {"PYTHONHASHSEED": "0"}, cache_dir=cache3, einsum_names=sub, spec_path=spec_path)
        bump("cache_history_runs")
        if not (rec.get("ok") and fresh.get("ok")):
            bump("inconclusive_runs")
        # a third request with the SAME arguments as the first one of this history must hit the cache
        rec3, _ = one_run(d, metrics, {"PYTHONHASHSEED": "0"}, cache_dir=cache3, spec_path=spec_path)
        if rec3.get("ok") and rec3.get("cache_entries_before", 0) >= 1 and rec3.get("cache_entries_after") == rec3.get("cache_entries_before"):
            bump("warm_cache_hits_observed")
            if rec3["rows"] is not None and vectors(rec3["rows"]) != bvec:
                viol.append({"sig": "front_depends_on:cache_history", "witness": {"history": ["all Einsums", "einsum_names=" + str(sub), "all Einsums"],
                                                                                   "baseline_front": bvec[:10], "front": vectors(rec3["rows"])[:10]}})
        if fresh.get("ok") and rec.get("ok") and fresh["rows"] is not None and rec["rows"] is not None:
            if vectors(rec["rows"]) != vectors(fresh["rows"]):
                viol.append({"sig": "front_depends_on:cache_history", "witness": {"history": ["all Einsums", "einsum_names=" + str(sub)],
                                                                                   "without_cache": vectors(fresh["rows"])[:10], "front": vectors(rec["rows"])[:10]}})
        shutil.rmtree(cache3, ignore_errors=True)
    for (what, kind), lst in per_kind.items():
        sig = (f"front_depends_on:{kind}" if what == "front" else f"mapping_structure_depends_on:{kind}")
        viol.append({"sig": sig, "witness": dict(lst[0], differing_runs=len(lst))})
    try:
        os.remove(spec_path)
    except OSError:
        pass
    counters["distinct_schedules"] = len(schedules)
    nt = [json.dumps([d["class"], d["workload"]["ranks"], k]) for k in ("schedule", "hashseed", "n_jobs", "cache")] if len(base["rows"]) >= 2 else []
    return {"status": "violation" if viol else "ok", "violations": viol, "nontrivial": nt, "counters": counters,
            "sample": {"spec": gs.summary(d), "baseline_front": bvec[:10], "variants": [v[0] for v in variants]}}
