"""C03 - every returned mapping is valid for the architecture and constraints."""
import copy
import json
import random

from ..gen import specs as gs

ID = "C03"
LEVEL = "exploration"
CHUNK = 2
CASE_TIMEOUT = 900
REQUIRED_COUNTERS = ["returned_mappings_validated"]
RULE = ("[classes: plain 1-3 Einsum specs; spatial (single Einsum, Container fanout with ==1 / <= / product<= / >= / ==n / product>= "
        "loop_bounds, lower bounds below a small buffer); persistent tensors incl. one read by two Einsums; shrinking chains "
        "(buffer fits the last Einsum only). An InvalidMappingError of the final evaluation = a selected mapping is invalid] "
        "specs of the small-spec family with tight memories, keep / may_keep set expressions (incl. ~MainMemory, "
        "Inputs, Outputs), 1-3 Einsums, max_fused_loops in {0,1,2,inf}, max_fused_loops_per_rank_variable in {1,2}, "
        "metric sets incl. RESOURCE_USAGE, tolerances 0; every row returned by map_workload_to_arch is rebuilt from "
        "user-facing fields and checked by a validator written against the spec: one Compute per Einsum, every rank "
        "variable iterated fully by perfectly factorising tile shapes, per-tensor storage order follows the hierarchy, "
        "every keep tensor present, nothing stored outside keep|may_keep, fused-loop limits, and capacity (a mapping fails "
        "on capacity only if even the order-independent value-granular peak exceeds the size). non-trivial = the spec has "
        "a finite memory, a non-default keep or a fused-loop limit; distinct = (spec, knobs, tree)")
ASSUMPTIONS = ["~MainMemory in a keep expression denotes the tensors without a MainMemory storage node in the mapping",
               "fused loops = loops above a sequential split on the Einsum's path"]
TECHNIQUE = "runtime monitoring: spec-derived structural validator + occupancy lower bracket on every mapping the mapper returns"


def gen_cases(tier, seed):
    rnd = random.Random(f"C03-{seed}")
    n = 48 if tier == "quick" else 320
    cases = []
    for i in range(n):
        wk = rnd.choice(["mm1", "mm1", "mv1", "chain2", "chain2", "mvchain2", "fanin2", "pshare2"] + (["chain3"] if tier != "quick" else []))
        d = gs.gen_spec(rnd, wk, levels=2 if wk in ("fanin2", "chain3") else rnd.choice([2, 2, 3]),
                        size_class=rnd.choice(["tight", "tight", "generous"]))
        if wk == "pshare2" or (wk in ("chain2", "fanin2", "mvchain2") and rnd.random() < 0.2):
            d["workload"]["persistent"] = "P" if wk == "pshare2" else rnd.choice(["Inputs - Intermediates", "All - Intermediates"])
            d["class"] += "/persistent"
        if i % 8 == 5:
            # shrinking chain: the buffer fits the last Einsum's tensors but not the first one's
            d = gs.shrinking_chain_spec(rnd, rnd.choice([2, 2, 3]) if tier != "quick" else 2)
            wk = d["workload"]["kind"]
        if len(d["workload"]["einsums"]) > 1:
            d["mapper"]["max_fused_loops"] = rnd.choice([0, 1, 2, "inf"])
            d["mapper"]["max_fused_loops_per_rank_variable"] = rnd.choice([1, 1, 2])
        if i % 4 == 3:
            # spatial class: a Container with one fanout and (usually) a loop_bounds constraint
            if len(d["workload"]["einsums"]) != 1:
                wk = rnd.choice(["mm1", "mm1", "mv1"])
                d = gs.gen_spec(rnd, wk, levels=rnd.choice([2, 2, 3]), size_class=rnd.choice(["tight", "tight", "generous"]))
            rvs = sorted(d["workload"]["ranks"])
            sp = {"name": "X", "fanout": rnd.choice([2, 3, 4])}
            kind = rnd.choice(["none", "only", "le", "prod", "ge", "ge", "ge", "prod_ge", "prod_ge", "ge"])
            if kind in ("ge", "prod_ge"):
                # lower bounds on the fanout BELOW a small buffer: the constrained spatial loop then has two enclosing
                # loops over its rank variable (above and below the buffer) and the bound is relative to the nearest one
                for rv in d["workload"]["ranks"]:
                    d["workload"]["ranks"][rv] = rnd.choice([8, 12, 16])
                sp["fanout"] = rnd.choice([4, 8])
                sizes = sorted(gs.tensor_sizes(d["workload"]).values())
                d["arch"]["mems"][1]["size"] = rnd.randint(max(8, sizes[0] // 4), max(16, sizes[-1] // 2)) * d["workload"]["bits"]
                d["arch"]["mems"][1]["keep"] = rnd.choice(["All", "All", "Nothing"])
                d["arch"]["size_class"] = "tight"
            if kind == "only":
                sp["loop_bounds"] = [{"expression": "~" + rnd.choice(rvs), "operator": "==", "value": 1}]
            elif kind == "le":
                sp["loop_bounds"] = [{"expression": rnd.choice(rvs + ["All"]) if False else rnd.choice(rvs), "operator": "<=", "value": rnd.choice([1, 2])}]
            elif kind == "ge":
                sp["loop_bounds"] = [{"expression": rnd.choice(rvs), "operator": rnd.choice([">=", ">=", "=="]), "value": rnd.choice([2, 4, sp["fanout"]])}]
            elif kind == "prod_ge":
                a_, b_ = rnd.sample(rvs, 2)
                sp["loop_bounds"] = [{"expression": f"{a_} | {b_}", "operator": "product>=", "value": rnd.choice([2, 4])}]
            elif kind == "prod":
                a_, b_ = rnd.sample(rvs, 2)
                sp["loop_bounds"] = [{"expression": f"{a_} | {b_}", "operator": "product<=", "value": rnd.choice([2, 3])}]
            d["arch"]["mems"].append({"kind": "Container", "name": "PE", "spatial": [sp]})
            d["class"] += "/spatial:" + kind
        cases.append({"class": wk + "/" + d["arch"]["size_class"] + ("/spatial" if "spatial" in d["class"] else ""), "desc": d,
                      "metrics": rnd.choice(["ENERGY", "LATENCY", "ENERGY|LATENCY", "ENERGY|LATENCY|RESOURCE_USAGE"])})
    return cases


def _input_feature(d):
    """Feature of the INPUT that known mapper errors are tied to (part of the mechanism signature)."""
    w = d["workload"]
    if not w.get("persistent"):
        return ""
    from ..ref.validator import _eval_expr, _keep_env
    users = {}
    pers = set()
    for e in w["einsums"]:
        env, full = _keep_env(w, e["name"], [], [])
        pers |= set(_eval_expr(w["persistent"], env, full))
        for t in e["tensors"]:
            users.setdefault(t["name"], set()).add(e["name"])
    return ":persistent_tensor_read_by_several_einsums" if any(len(users.get(t, ())) > 1 for t in pers) else ":persistent_tensors"


def run_case(case):
    from .. import harness as H
    from ..ref.validator import validate
    d = case["desc"]
    counters, viol, nontriv = {}, [], []
    try:
        rows = H.result_rows(H.run_mapper(d, case["metrics"]))
    except H.NoMapping:
        return {"status": "ok", "counters": {"no_valid_mapping": 1}}
    except Exception as ex:
        if type(ex).__name__ == "InvalidMappingError":
            # the final detailed evaluation refuses a mapping the search selected: the returned front contains an
            # invalid (e.g. oversubscribed) mapping
            return {"status": "violation", "violations": [{"sig": "selected_mapping_rejected_by_final_evaluation",
                    "witness": {"error": str(ex)[:300], "metrics": case["metrics"], "spec": gs.summary(d)}}], "counters": counters}
        if not isinstance(ex, (AttributeError, TypeError, KeyError, IndexError, AssertionError)):
            raise
        # an internal error of the mapper on a spec the frontend accepted (not a validation error)
        import traceback
        tb = traceback.extract_tb(ex.__traceback__)
        inside = [f for f in tb if "/accelforge/" in f.filename]
        if not inside:
            raise
        sig = f"mapper_raises:{type(ex).__name__}@{inside[-1].name}" + _input_feature(d)
        witness = {"error": str(ex)[:300], "where": f"{inside[-1].filename.split('/accelforge/')[-1]}:{inside[-1].name}", "spec": gs.summary(d),
                   "spatial": [m.get("spatial") for m in d["arch"]["mems"] if m.get("spatial")]}
        # the detailed final evaluation raised: look at what the join itself returned (eval_in_detail=False) - an
        # ill-formed returned LoopTree is the mechanism, the exception only its symptom
        try:
            rows0 = H.result_rows(H.run_mapper(d, case["metrics"], eval_in_detail=False))
            for r in rows0:
                probs = [p for p in validate(d, r["tree"], check_capacity=False) if p[0] == "tensor_held_twice_by_one_component"]
                if probs:
                    sig = "invalid_mapping_returned:tensor_held_twice_by_one_component"
                    witness.update(problem=probs[0][1], tree=r["tree"], symptom=f"{type(ex).__name__} in {witness['where']}")
                    break
        except Exception:
            pass
        return {"status": "violation", "violations": [{"sig": sig, "witness": witness}], "counters": counters}
    for r in rows[:25]:
        counters["returned_mappings_validated"] = counters.get("returned_mappings_validated", 0) + 1
        probs = validate(d, r["tree"])
        for code, detail in probs[:2]:
            viol.append({"sig": "invalid_mapping_returned:" + code, "witness": {"problem": detail, "tree": r["tree"], "spec": gs.summary(d)}})
        nontriv.append(json.dumps([d["class"], d["workload"]["ranks"], d["mapper"], r["tree"]], sort_keys=True))
    seen, keep = set(), []
    for v in viol:
        if v["sig"] not in seen:
            seen.add(v["sig"])
            keep.append(v)
    return {"status": "violation" if keep else "ok", "violations": keep, "nontrivial": nontriv, "counters": counters,
            "sample": {"spec": gs.summary(d), "rows": len(rows), "first_tree": rows[0]["tree"]}}
