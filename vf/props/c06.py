"""C06 - reported memory usage equals the execution-time peak occupancy."""
import copy
import json
import math
import random

from ..gen import mappings as gm
from ..gen import specs as gs

ID = "C06"
LEVEL = "exploration"
CHUNK = 2
CASE_TIMEOUT = 1200
REQUIRED_COUNTERS = ["usage_values_compared", "capacity_boundary_checks", "fused_mappings_compared"]
RULE = ("(a) random concrete single-Einsum mappings with finite inner memories and storage at arbitrary depths; (b) 1-3 "
        "Einsum mappings produced by the mapper on tight architectures (shared fused loops above sequential splits, "
        "intermediates backed in an inner memory, finite backing store whose occupancy follows tensor lifetimes, persistent "
        "tensors incl. one read by two Einsums, n_instances), rebuilt from user-facing fields and "
        "evaluated by evaluate_mapping; the reported usage x size of every finite memory is compared with a time-stepped "
        "simulation (tile instances live from first to last use; an instance below directly-indexing loops is streamed "
        "slice by slice) and with two bracketing numbers that do not depend on the streaming rule: L value-granular "
        "liveness, U whole tiles; (c) for every mapping the memory is resized just below / at the reported peak: the "
        "former must be rejected as invalid, the latter accepted. non-trivial = a holder below a loop or a fused "
        "mapping; distinct = (spec, tree)")
ASSUMPTIONS = ["the streaming granularity follows loops that index the tensor directly; other tensors' storage nodes "
               "between a holder and those loops are not loops and are skipped; a storage node of the same tensor ends it",
               "usage compared at 1e-6 relative"]
TECHNIQUE = "runtime monitoring: time-stepped occupancy simulation (plus order-independent lower/upper brackets) vs evaluate_mapping's resource usage; capacity boundary probing"

SIZE = 2 ** 20


def gen_cases(tier, seed):
    rnd = random.Random(f"C06-{seed}")
    n, per = (16, 15) if tier == "quick" else (160, 60)
    cases = [{"class": "single", "seed": rnd.randrange(2**31), "count": per} for _ in range(n)]
    nm = 14 if tier == "quick" else 150
    for i in range(nm):
        cases.append({"class": "fused", "seed": rnd.randrange(2**31)})
    return cases


def simulate(d, tree):
    from ..ref.occupancy import Occupancy
    arch = {m["name"]: {"kind": m.get("kind", "Memory"), "bits": m.get("bits_per_value")} for m in d["arch"]["mems"]}
    oc = Occupancy(d["workload"], arch).run(tree)
    return {m: oc.peaks(m) for m in ("tile", "tile_blocked", "L", "U")}


def compare(d, tree, usage, counters, viol, fused):
    """usage: {mem: fraction}. Appends violations; returns True if anything was compared."""
    sim = simulate(d, tree)
    size = {m["name"]: m["size"] for m in d["arch"]["mems"]}
    any_cmp = False
    for mem, u in usage.items():
        if size.get(mem, "inf") == "inf":
            continue
        any_cmp = True
        counters["usage_values_compared"] = counters.get("usage_values_compared", 0) + 1
        got = float(u) * size[mem]
        exp = sim["tile"].get(mem, 0)
        tol = 1e-6 * max(1.0, exp)
        if abs(got - exp) <= tol:
            continue
        L, U = sim["L"].get(mem, 0), sim["U"].get(mem, 0)
        if got < L - tol:
            sig = "under_reports_below_value_granular_liveness"
        elif got > U + tol:
            sig = "over_reports_above_whole_tiles"
            extra = _shared_prefix_holder_bits(d, tree, mem)
            if extra and any(abs(got - exp - k * e) <= tol + 1e-3 for e in extra for k in (1, 2)):
                sig = "shared_prefix_holder_counted_once_per_einsum"
        elif abs(got - sim["tile_blocked"].get(mem, 0)) <= tol:
            sig = "adjacent_holder_blocks_lowering"
        else:
            sig = "lifetime_mismatch" + (":fused" if fused else "")
        viol.append({"sig": sig, "witness": {"memory": mem, "model_bits": got, "simulated_bits": exp, "L": L, "U": U,
                                             "with_lowering_blocked_by_any_storage_node": sim["tile_blocked"].get(mem, 0),
                                             "ranks": d["workload"]["ranks"], "bits": d["workload"]["bits"], "tree": tree}})
    return any_cmp


def _shared_prefix_holder_bits(d, tree, mem):
    """Tile sizes (bits) of non-backing holders in `mem` that sit ABOVE a sequential split and whose tensor is used by
    two or more Einsums below the split (attribution of an over-report: the model counts such a holder per Einsum)."""
    w = d["workload"]
    uses = {e["name"]: {t["name"]: t["proj"] for t in e["tensors"]} for e in w["einsums"]}
    bits = {m["name"]: (m.get("bits_per_value") or {}) for m in d["arch"]["mems"]}
    out = []

    def einsums(nodes):
        r = []
        for n in nodes:
            if n["t"] == "C":
                r.append(n["einsum"])
            elif n["t"] == "Q":
                for b in n["branches"]:
                    r += einsums(b)
        return r

    def walk(nodes, tile):
        tile = dict(tile)
        seen_backing = set()
        for i, n in enumerate(nodes):
            if n["t"] in ("T", "P") and isinstance(n["tile"], int):
                tile[n["rv"]] = n["tile"]
            elif n["t"] == "S" and n["comp"] == mem:
                below = einsums(nodes[i + 1:])
                has_split = any(x["t"] == "Q" for x in nodes[i + 1:])
                for t in n["tensors"]:
                    users = [e for e in below if t in uses[e]]
                    if has_split and len(users) >= 2:
                        proj = uses[users[0]][t]
                        if isinstance(proj, list):
                            size = 1
                            for rv in proj:
                                size *= tile.get(rv, w["ranks"][rv])
                            out.append(size * bits.get(mem, {}).get(t, w["bits"]))
            elif n["t"] == "Q":
                for b in n["branches"]:
                    walk(b, tile)
    walk(tree, {})
    return out


def boundary(d, tree, usage, counters, viol):
    """Resize one finite memory just below / exactly at the model's own peak."""
    from .. import harness as H
    from accelforge.model.main import InvalidMappingError
    size = {m["name"]: m["size"] for m in d["arch"]["mems"]}
    for mem, u in usage.items():
        if size.get(mem, "inf") == "inf":
            continue
        peak = float(u) * size[mem]
        if abs(peak - round(peak)) < 1e-3:
            peak = float(round(peak))        # usage is a float32 ratio: undo its rounding error
        if peak < 2:
            continue
        for new_size, must_accept in ((math.ceil(peak - 1e-9), True), (math.ceil(peak - 1e-9) - 1, False)):
            d2 = copy.deepcopy(d)
            for m in d2["arch"]["mems"]:
                if m["name"] == mem:
                    m["size"] = new_size
            counters["capacity_boundary_checks"] = counters.get("capacity_boundary_checks", 0) + 1
            try:
                H.eval_tree(d2, tree)
                accepted, err = True, None
            except InvalidMappingError as ex:
                accepted, err = False, str(ex)[:200]
            except Exception as ex:
                counters["boundary_other_exception:" + type(ex).__name__] = 1
                continue
            if accepted != must_accept:
                viol.append({"sig": "oversubscribed_mapping_accepted" if accepted else "fitting_mapping_rejected",
                             "witness": {"memory": mem, "peak_bits": peak, "size_bits": new_size, "error": err, "tree": tree}})
        break


def single_item(rnd):
    d = gs.gen_spec(rnd, rnd.choice(["mm1", "mm1", "mv1", "ew1"]), levels=rnd.choice([2, 3]), size_class="inf", costs="random")
    for m in d["arch"]["mems"]:
        m["keep"], m["may_keep"] = "Nothing", "All"
    d["arch"]["mems"][0]["keep"] = "All"
    for m in d["arch"]["mems"][1:]:
        m["size"] = SIZE
        if rnd.random() < 0.25:
            tensors = [t["name"] for t in d["workload"]["einsums"][0]["tensors"]]
            m["bits_per_value"] = {rnd.choice(tensors): rnd.choice([2, 4, 16])}
    for rv in d["workload"]["ranks"]:
        d["workload"]["ranks"][rv] = rnd.choice([2, 3, 4, 6])
    return {"desc": d, "tree": gm.gen_mapping(rnd, d)}


def check_single(item, counters):
    from .. import harness as H
    H.serial()
    d, tree = item["desc"], item["tree"]
    viol = []
    try:
        ev = H.eval_tree(d, tree)
    except Exception as ex:
        counters["model_rejects:" + type(ex).__name__] = counters.get("model_rejects:" + type(ex).__name__, 0) + 1
        return [], False
    usage = {k: float(v) for k, v in ev.resource_usage().items()}
    compare(d, tree, usage, counters, viol, False)
    if not viol:
        boundary(d, tree, usage, counters, viol)
    below = any(n["t"] == "S" and n["comp"] != "MainMemory" and any(x["t"] == "T" for x in tree[:i]) for i, n in enumerate(tree))
    return viol, below


def check_fused(seed, counters):
    from .. import harness as H
    rnd = random.Random(seed)
    wk = rnd.choice(["chain2", "mvchain2", "fanin2", "chain3", "chain2", "pshare2"])
    d = gs.gen_spec(rnd, wk, levels=2 if wk in ("chain3", "fanin2") else rnd.choice([2, 2, 3]),
                    size_class="tight", costs="tradeoff")
    variant = rnd.choice(["plain", "plain", "n_instances", "persistent"]) if wk != "pshare2" else "persistent"
    if variant == "n_instances":
        d["workload"]["einsums"][0]["n_instances"] = 2
    if variant == "persistent":
        d["workload"]["persistent"] = rnd.choice(["Inputs - Intermediates", "All - Intermediates"]) if wk != "pshare2" else "P"
    if variant == "persistent" or rnd.random() < 0.5:
        # finite backing store: its occupancy follows tensor lifetimes (first to last Einsum that uses the tensor;
        # a persistent holder is resident throughout)
        d["arch"]["mems"][0]["size"] = 2 ** 16 * d["workload"]["bits"]
    viol, nontriv = [], []
    try:
        res = H.run_mapper(d, "ENERGY|LATENCY|RESOURCE_USAGE")
    except H.NoMapping:
        counters["no_valid_mapping"] = counters.get("no_valid_mapping", 0) + 1
        return [], [], d
    except H.MapperTimeout:
        counters["mapper_watchdog(inconclusive)"] = counters.get("mapper_watchdog(inconclusive)", 0) + 1
        return [], [], d
    except (AssertionError, AttributeError, KeyError, IndexError, TypeError) as ex:
        import traceback
        if not any("/accelforge/" in f.filename for f in traceback.extract_tb(ex.__traceback__)):
            raise
        k = "mapper_internal_error(judged by C03):" + type(ex).__name__
        counters[k] = counters.get(k, 0) + 1
        return [], [], d
    rows = H.result_rows(res)
    rnd.shuffle(rows)
    for r in rows[:10]:
        try:
            ev = H.eval_tree(d, r["tree"])
        except Exception as ex:
            counters["standalone_eval_fails:" + type(ex).__name__] = counters.get("standalone_eval_fails:" + type(ex).__name__, 0) + 1
            continue
        usage = {k: float(v) for k, v in ev.resource_usage().items()}
        v = []
        compare(d, r["tree"], usage, counters, v, True)
        counters["fused_mappings_compared"] = counters.get("fused_mappings_compared", 0) + 1
        if not v and variant == "plain":
            boundary(d, r["tree"], usage, counters, v)
        for x in v:
            x["witness"]["variant"] = variant
        viol += v
        nontriv.append(json.dumps([d["class"], d["workload"]["ranks"], variant, r["tree"]], sort_keys=True))
    seen, keep = set(), []
    for x in viol:
        if x["sig"] not in seen:
            seen.add(x["sig"])
            keep.append(x)
    return keep, nontriv, d


def run_case(case):
    counters, viol, nontriv, sample = {}, [], [], None
    if "item" in case:
        v, _ = check_single(case["item"], counters)
        return {"status": "violation" if v else "ok", "violations": v, "counters": counters, "nontrivial": ["explicit"]}
    if case["class"] == "fused":
        v, nt, d = check_fused(case["seed"], counters)
        for x in v:
            x["case"] = dict(case)
        return {"status": "violation" if v else "ok", "violations": v, "counters": counters, "nontrivial": nt,
                "sample": {"fused_spec": gs.summary(d)}}
    rnd = random.Random(case["seed"])
    per_sig = {}
    for _ in range(case["count"]):
        item = single_item(rnd)
        v, nt = check_single(item, counters)
        for x in v:
            per_sig[x["sig"]] = per_sig.get(x["sig"], 0) + 1
            if per_sig[x["sig"]] <= 2:
                x["case"] = {"class": "single", "item": item}
                viol.append(x)
        if nt:
            nontriv.append(json.dumps([item["desc"]["workload"]["ranks"], item["tree"]], sort_keys=True))
            if sample is None:
                sample = {"ranks": item["desc"]["workload"]["ranks"], "tree": item["tree"]}
    for s, c in per_sig.items():
        counters["violating_mappings:" + s] = c
    return {"status": "violation" if viol else "ok", "violations": viol, "nontrivial": nontriv, "counters": counters, "sample": sample}
