"""C32 - the parallel runner returns each job's result in job order.

History monitor: every job returns a unique (index, nonce) token plus its completion
timestamp, so the result at each position identifies the job that produced it and the
observed completion order is part of the record.
"""
import os
import random

ID = "C32"
LEVEL = "exploration"
CHUNK = 1
MAX_JOBS = 5
CASE_TIMEOUT = 900
REQUIRED_COUNTERS = ["list_calls", "dict_calls", "calls_completed_out_of_submission_order"]
RULE = ("parallel() invoked with job lists of length 0-64, worker counts {1,2,3,4,8,16}, list / dict / generator / "
        "generator_unordered returns, seeded per-job sleeps of 0-20 ms, with and without the schedule hook "
        "(seeded submission permutation + jitter); every job returns a unique token. A call is non-trivial when it "
        "has >= 2 jobs; distinct = (n_jobs, kind, observed completion order). A run in which no call completed "
        "out of submission order is inconclusive.")
ASSUMPTIONS = ["what happens when a job raises is outside the statement (recorded only)"]
TECHNIQUE = "runtime monitoring: unique-token history check of parallel() under real loky pools with injected delays and seeded submission permutations"


def gen_cases(tier, seed):
    rnd = random.Random(f"C32-{seed}")
    reps, calls = (1, 10) if tier == "quick" else (4, 24)
    cases = []
    for n_jobs in (1, 2, 3, 4, 8, 16):
        for r in range(reps):
            for hook in (None, rnd.randrange(1, 10**6)):
                cases.append({"class": f"n_jobs={n_jobs}" + ("+hook" if hook else ""), "n_jobs": n_jobs,
                              "seed": rnd.randrange(2**31), "calls": calls, "hook_seed": hook})
    return cases


def run_case(case):
    from accelforge.util.parallel import parallel, delayed
    from vf import jobs as J

    rnd = random.Random(case["seed"])
    for k in ("ACCELFORGE_VERIF_SCHEDULE_SEED", "ACCELFORGE_VERIF_SCHEDULE_JITTER_MS"):
        os.environ.pop(k, None)
    if case.get("hook_seed"):
        os.environ["ACCELFORGE_VERIF_SCHEDULE_SEED"] = str(case["hook_seed"])
        os.environ["ACCELFORGE_VERIF_SCHEDULE_JITTER_MS"] = "5"
    n_jobs = case["n_jobs"]
    counters, viol, nontriv = {}, [], []
    sample = None

    def bump(k, v=1):
        counters[k] = counters.get(k, 0) + v

    lengths = [0, 1, 2, 3, 5, 8, 13, 17, 31, 64]
    for c in range(case["calls"]):
        n = rnd.choice(lengths) if c >= len(lengths) else lengths[c]
        kind = rnd.choice(["list", "list", "dict", "generator", "generator_unordered"])
        if c == 0:
            kind, n = "list", 24
        if c == 1:
            kind, n = "dict", 16
        nonces = [rnd.randrange(10**9) for _ in range(n)]
        sleeps = [rnd.choice([0, 0, 1, 3, 8, 20]) for _ in range(n)]
        if n and rnd.random() < 0.5:
            sleeps[0] = 20  # make the first job slow: it must still come back first
        desc = {"n_jobs": n_jobs, "kind": kind, "n": n, "sleeps": sleeps, "hook": bool(case.get("hook_seed"))}
        try:
            if kind == "dict":
                keys = [f"k{j}_{rnd.randrange(1000)}" if j % 2 else (j, "t") for j in range(n)]
                rnd.shuffle(keys)
                res = parallel({k: delayed(J.tagged)(j, nonces[j], sleeps[j]) for j, k in enumerate(keys)}, n_jobs=n_jobs)
                bump("dict_calls")
                ok = list(res.keys()) == keys and all(res[k][0] == j and res[k][1] == nonces[j] for j, k in enumerate(keys))
                toks = [res[k] for k in keys] if ok else list(res.values())
            else:
                job_list = [delayed(J.tagged)(j, nonces[j], sleeps[j]) for j in range(n)]
                ra = None if kind == "list" else kind
                res = parallel(job_list, n_jobs=n_jobs, return_as=ra)
                toks = list(res)
                bump(kind + "_calls")
                if kind in ("list", "generator"):
                    ok = len(toks) == n and all(t[0] == j and t[1] == nonces[j] for j, t in enumerate(toks))
                else:
                    ok = sorted((t[0], t[1]) for t in toks) == sorted(zip(range(n), nonces))
        except Exception as e:
            viol.append({"sig": f"exception:{kind}:{type(e).__name__}", "witness": {"call": desc, "error": str(e)[:300]}})
            continue
        if not ok:
            got = [(t[0], t[1]) if isinstance(t, tuple) else repr(t)[:30] for t in toks][:70]
            viol.append({"sig": f"wrong_result_position:{kind}", "witness": {"call": desc, "returned_tokens": got,
                                                                             "expected": list(zip(range(n), nonces))[:70]}})
        if n >= 2:
            comp = [t[0] for t in sorted(toks, key=lambda t: t[2])] if all(isinstance(t, tuple) and len(t) == 4 for t in toks) else []
            if comp and comp != list(range(n)):
                bump("calls_completed_out_of_submission_order")
            nontriv.append(f"{n_jobs}:{kind}:{','.join(map(str, comp))}")
            if sample is None and n <= 8 and comp != list(range(n)):
                sample = {"call": desc, "completion_order": comp, "distinct_worker_pids": len({t[3] for t in toks})}
    # a failing job: outside the statement, recorded only
    try:
        parallel([delayed(J.tagged)(0, 1, 0), delayed(J.failing)(1), delayed(J.tagged)(2, 3, 0)], n_jobs=n_jobs)
        bump("failing_job_returned_normally")
    except Exception:
        bump("failing_job_raised")
    return {"status": "violation" if viol else "ok", "violations": viol[:4], "nontrivial": nontriv,
            "counters": counters, "sample": sample}
