"""C31 - Toll components pass data through without storing it."""
import copy
import json
import random

from ..gen import mappings as gm
from ..gen import specs as gs

ID = "C31"
LEVEL = "exploration"
CHUNK = 2
CASE_TIMEOUT = 1200
REQUIRED_COUNTERS = ["toll_mappings_evaluated", "toll_read_counts_compared", "mapper_results_scanned"]
RULE = ("(a) random concrete single-Einsum mappings with a Toll between two memories (Toll nodes at random legal depths, "
        "per-tensor directions up / down / up_and_down, inputs and outputs, refetch under loops, mixed "
        "skip_initial_output_write): the model's Toll read count per tensor must equal the executor's count of values "
        "crossing it in the configured direction (/ values per action), its write count and its occupancy must be zero; "
        "(b) every mapping returned by the mapper on Toll architectures (1-2 Einsums, Toll keep variants, with and without "
        "an outer holder for intermediates) is scanned: a Toll is never the outermost holder of a tensor shared between "
        "Einsums. non-trivial = (a) the Toll passes >= 1 tensor below a loop / (b) the workload has a shared tensor; "
        "distinct = (spec, tree)")
ASSUMPTIONS = ["Toll mapping nodes are generated with the !Toll node type", "values per action of the Toll: bits_per_action 1"]
TECHNIQUE = "runtime monitoring: executable reference model with pass-through semantics vs evaluate_mapping; structural scan of mapper results"


def gen_cases(tier, seed):
    rnd = random.Random(f"C31-{seed}")
    n, per = (24, 12) if tier == "quick" else (200, 40)
    cases = [{"class": "model", "seed": rnd.randrange(2**31), "count": per} for _ in range(n)]
    nm = 12 if tier == "quick" else 120
    for i in range(nm):
        cases.append({"class": "mapper", "seed": rnd.randrange(2**31)})
    return cases


def toll_spec(rnd, wkind, dirs=None):
    d = gs.gen_spec(rnd, wkind, levels=2, size_class=rnd.choice(["inf", "inf", "tight"]), costs=rnd.choice(["random", "tradeoff"]))
    tensors = sorted({t["name"] for e in d["workload"]["einsums"] for t in e["tensors"]})
    if dirs is None:
        dirs = rnd.choice(["down", "up", "up_and_down", {t: rnd.choice(["down", "up", "up_and_down"]) for t in tensors}])
    toll = {"kind": "Toll", "name": "TL", "direction": dirs, "read_e": rnd.choice([1, 7, 50]), "read_tp": rnd.choice(["inf", 4]),
            "keep": "All", "may_keep": "All"}
    d["arch"]["mems"].insert(1, toll)
    return d


def model_item(rnd):
    d = toll_spec(rnd, rnd.choice(["mm1", "mv1", "ew1"]))
    for m in d["arch"]["mems"]:
        if m.get("kind") != "Toll":
            m["keep"], m["may_keep"], m["size"] = "Nothing", "All", "inf"
    d["arch"]["mems"][0]["keep"] = "All"
    d["arch"]["mems"][1]["keep"] = "Nothing"
    for rv in d["workload"]["ranks"]:
        d["workload"]["ranks"][rv] = rnd.choice([2, 3, 4])
    if rnd.random() < 0.4:
        for m in d["arch"]["mems"]:
            if m.get("kind") != "Toll":
                m["skip"] = rnd.random() < 0.5
        d["arch"]["mac"]["skip"] = rnd.random() < 0.5
    return {"desc": d, "tree": gm.gen_mapping(rnd, d)}


def check_model(item, counters):
    from .. import harness as H
    from ..ref.looptree_exec import Executor
    d, tree = item["desc"], item["tree"]
    H.serial()
    try:
        ev = H.eval_tree(d, tree)
    except Exception as ex:
        counters["model_rejects:" + type(ex).__name__] = counters.get("model_rejects:" + type(ex).__name__, 0) + 1
        return [], False
    counters["toll_mappings_evaluated"] = counters.get("toll_mappings_evaluated", 0) + 1
    arch = {m["name"]: {"kind": m.get("kind", "Memory"), "skip": m.get("skip", True), "direction": m.get("direction")} for m in d["arch"]["mems"]}
    arch["MAC"] = {"kind": "Compute", "skip": d["arch"]["mac"].get("skip", True)}
    ex = Executor(d["workload"], arch).run(tree)
    bits = d["workload"]["bits"]
    acts = ev.actions(per_component=True, per_tensor=True)
    viol = []
    tensors = [t["name"] for t in d["workload"]["einsums"][0]["tensors"]]
    for t in tensors:
        exp = ex.counts.get(("TL", t, "read"), 0) * bits
        got = float(acts.get(("TL", t, "read"), 0.0))
        counters["toll_read_counts_compared"] = counters.get("toll_read_counts_compared", 0) + 1
        if abs(got - exp) > 1e-6:
            dr = d["arch"]["mems"][1]["direction"]
            dr = dr if isinstance(dr, str) else dr.get(t)
            viol.append({"sig": f"toll_read_count_wrong:{dr}", "witness": {"tensor": t, "direction": dr, "model": got, "executed": exp, "tree": tree,
                                                                           "ranks": d["workload"]["ranks"]}})
        w = float(acts.get(("TL", t, "write"), 0.0))
        if w != 0:
            viol.append({"sig": "toll_has_write_actions", "witness": {"tensor": t, "writes": w, "tree": tree}})
    ru = ev.resource_usage()
    if "TL" in ru and float(ru["TL"]) != 0:
        viol.append({"sig": "toll_has_occupancy", "witness": {"usage": float(ru["TL"]), "tree": tree}})
    occ_cols = [c for c in ev.data.columns if "usage" in c and H.SEP + "TL" + H.SEP in c]
    for c in occ_cols:
        if float(ev.data[c].iloc[0]) != 0:
            viol.append({"sig": "toll_has_occupancy", "witness": {"column": c, "value": float(ev.data[c].iloc[0]), "tree": tree}})
    has_toll_below_loop = any(n["t"] == "S" and n.get("toll") and any(x["t"] == "T" for x in tree[:i]) for i, n in enumerate(tree))
    return viol, has_toll_below_loop


def outermost_holders(tree, found=None, path_seen=None):
    """tensor -> set of (comp, is_toll) of its outermost holder(s) along any root-to-compute path."""
    found = {} if found is None else found
    seen = set() if path_seen is None else set(path_seen)
    for n in tree:
        if n["t"] == "S":
            for t in n["tensors"]:
                if t not in seen:
                    found.setdefault(t, set()).add((n["comp"], bool(n.get("toll"))))
                    seen.add(t)
        elif n["t"] == "Q":
            for b in n["branches"]:
                outermost_holders(b, found, seen)
    return found


def check_mapper(seed, counters):
    from .. import harness as H
    rnd = random.Random(seed)
    d = toll_spec(rnd, rnd.choice(["chain2", "mvchain2", "chain2", "mm1"]), dirs=rnd.choice(["down", "up_and_down", "up_and_down"]))
    mems = d["arch"]["mems"]
    variant = rnd.choice(["outer_keeps_all", "no_outer_for_intermediates", "toll_may_keep"])
    if variant == "outer_keeps_all":
        mems[0]["keep"] = "All"
    elif variant == "no_outer_for_intermediates":
        mems[0]["keep"], mems[0]["may_keep"] = "~Intermediates", "All"
    else:
        mems[0]["keep"], mems[0]["may_keep"] = "~Intermediates", "All"
        mems[1]["keep"], mems[1]["may_keep"] = "Nothing", "All"
    mems[2]["keep"], mems[2]["may_keep"] = "~MainMemory", "All"
    shared = set()
    users = {}
    for e in d["workload"]["einsums"]:
        for t in e["tensors"]:
            users.setdefault(t["name"], set()).add(e["name"])
    shared = {t for t, u in users.items() if len(u) > 1}
    viol = []
    try:
        res = H.run_mapper(d, rnd.choice(["ENERGY", "ENERGY|LATENCY"]))
    except H.NoMapping:
        counters["no_valid_mapping"] = counters.get("no_valid_mapping", 0) + 1
        return [], False, d
    except Exception as ex:
        counters["mapper_raised:" + type(ex).__name__] = counters.get("mapper_raised:" + type(ex).__name__, 0) + 1
        return [], False, d
    rows = H.result_rows(res)
    for r in rows:
        counters["mapper_results_scanned"] = counters.get("mapper_results_scanned", 0) + 1
        oh = outermost_holders(r["tree"])
        for t in shared:
            if any(is_toll for _, is_toll in oh.get(t, ())):
                viol.append({"sig": "toll_is_outermost_holder_of_shared_tensor", "witness": {"tensor": t, "variant": variant, "tree": r["tree"]}})
                break
    return viol[:2], bool(shared), d


def run_case(case):
    counters, viol, nontriv, sample = {}, [], [], None
    if "item" in case:
        v, _ = check_model(case["item"], counters)
        return {"status": "violation" if v else "ok", "violations": v, "counters": counters, "nontrivial": ["explicit"]}
    if case["class"] == "mapper":
        v, nt, d = check_mapper(case["seed"], counters)
        for x in v:
            x["case"] = dict(case)
        return {"status": "violation" if v else "ok", "violations": v, "counters": counters,
                "nontrivial": [json.dumps(["mapper", d["class"], d["workload"]["ranks"], case["seed"] % 1000])] if nt else [],
                "sample": {"mapper_spec": gs.summary(d)}}
    rnd = random.Random(case["seed"])
    per_sig = {}
    for _ in range(case["count"]):
        item = model_item(rnd)
        v, nt = check_model(item, counters)
        for x in v:
            per_sig[x["sig"]] = per_sig.get(x["sig"], 0) + 1
            if per_sig[x["sig"]] <= 2:
                x["case"] = {"class": "model", "item": item}
                viol.append(x)
        if nt:
            nontriv.append(json.dumps([item["desc"]["arch"]["mems"][1]["direction"], item["desc"]["workload"]["ranks"], item["tree"]], sort_keys=True))
            if sample is None:
                sample = {"direction": item["desc"]["arch"]["mems"][1]["direction"], "tree": item["tree"]}
    return {"status": "violation" if viol else "ok", "violations": viol, "nontrivial": nontriv, "counters": counters, "sample": sample}
