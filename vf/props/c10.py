"""C10 - tile-shape candidates and mapspace counts are complete and exact.

Oracle: direct arithmetic enumeration (no accelforge code).  Exhaustive inside the stated
numeric bounds.
"""
import itertools
import math
from collections import Counter

ID = "C10"
LEVEL = "exploration"
EXHAUSTIVE = True
CHUNK = 1
CASE_TIMEOUT = 1500
REQUIRED_COUNTERS = ["perfect_pairs", "imperfect_pairs", "count_patterns"]
RULE = ("exhaustive over (outer, inner|outer) pairs for both factorisation modes at coarseness 1 "
        "and over (n, perfect/imperfect pattern up to length 4) for the chain counter; a pair is "
        "non-trivial when the oracle candidate set has >= 2 elements, a counter case when the "
        "brute-force count is >= 2; distinct = distinct (mode, outer, inner) / (n, pattern)")
ASSUMPTIONS = [
    "coarseness fixed to 1 as in the property's quantifier",
    "a 'factorisation chain' for the counter is a sequence of per-loop factor choices: a perfect "
    "loop over a remaining size r picks a divisor d (remaining r/d), an imperfect loop picks any "
    "iteration count s in 1..r (remaining ceil(r/s)); the innermost loop takes what remains",
]


def gen_cases(tier, seed):
    if tier == "quick":
        pmax, imax, nmax, n4max, step = 640, 256, 40, 16, 64
    else:
        pmax, imax, nmax, n4max, step = 4096, 1024, 96, 40, 128
    cases = []
    for lo in range(1, pmax + 1, step):
        cases.append({"class": "perfect", "lo": lo, "hi": min(pmax, lo + step - 1)})
    for lo in range(1, imax + 1, step):
        cases.append({"class": "imperfect", "lo": lo, "hi": min(imax, lo + step - 1)})
    for lo in range(1, nmax + 1, 8):
        cases.append({"class": "counter", "lo": lo, "hi": min(nmax, lo + 7), "n4max": n4max})
    return cases


def divisors(n):
    return [d for d in range(1, n + 1) if n % d == 0]


def brute_chains(n, pattern):
    """Literal nested enumeration of chains (pattern[-1] is the forced innermost loop)."""
    def rec(r, i):
        if i >= len(pattern) - 1:
            return 1
        tot = 0
        if pattern[i]:
            for s in range(1, r + 1):
                tot += rec(-(-r // s), i + 1)
        else:
            for d in range(1, r + 1):
                if r % d == 0:
                    tot += rec(r // d, i + 1)
        return tot
    return rec(n, 0)


def wave_chains(n, pattern):
    """Level-by-level multiset propagation (independent of recursion / memoisation)."""
    cur = Counter({n: 1})
    for imp in pattern[:-1]:
        nxt = Counter()
        for r, c in cur.items():
            if imp:
                for s in range(1, r + 1):
                    nxt[-(-r // s)] += c
            else:
                for d in divisors(r):
                    nxt[r // d] += c
        cur = nxt
    return sum(cur.values())


def run_case(case):
    from accelforge.mapper.FFM._make_pmappings.make_pmappings_from_templates import make_tile_shapes as mts
    from accelforge.util import _mathfuncs as mf

    viol, nontriv = [], []
    counters = Counter()
    cls = case["class"]
    sample = None
    if cls in ("perfect", "imperfect"):
        imperfect = cls == "imperfect"
        for outer in range(case["lo"], case["hi"] + 1):
            for inner in divisors(outer):
                got = [int(x) for x in mts.get_possible_factor_sizes(outer, imperfect, inner, 1)]
                counters[cls + "_pairs"] += 1
                if not imperfect:
                    exp = [m for m in range(inner, outer + 1, inner) if outer % m == 0]
                    if sorted(got) != exp or len(set(got)) != len(got):
                        viol.append({"sig": "perfect_candidates_wrong",
                                     "witness": {"outer": outer, "inner": inner, "got": got[:40], "expected": exp[:40]},
                                     "case": {"class": cls, "lo": outer, "hi": outer}})
                    if len(exp) >= 2:
                        nontriv.append(f"p:{outer}:{inner}")
                else:
                    counts = {-(-outer // m) for m in range(inner, outer + 1, inner)}
                    need = {-(-outer // c) for c in counts}
                    gs = set(got)
                    missing = sorted(need - gs)
                    over = sorted(x for x in gs if x > outer)
                    if missing:
                        viol.append({"sig": "imperfect_smallest_shape_missing",
                                     "witness": {"outer": outer, "inner": inner, "missing": missing[:20], "got": got[:40]},
                                     "case": {"class": cls, "lo": outer, "hi": outer}})
                    if over:
                        viol.append({"sig": "imperfect_candidate_exceeds_outer",
                                     "witness": {"outer": outer, "inner": inner, "over": over[:20]},
                                     "case": {"class": cls, "lo": outer, "hi": outer}})
                    if len(need) >= 2:
                        nontriv.append(f"i:{outer}:{inner}")
                if sample is None and outer % 12 == 0 and inner in (2, 3):
                    sample = {"outer": outer, "inner": inner, "imperfect": imperfect, "returned": got}
    else:
        for n in range(case["lo"], case["hi"] + 1):
            for L in range(0, 5):
                for pat in itertools.product([False, True], repeat=L):
                    if L == 4 and n > case["n4max"]:
                        exp = wave_chains(n, pat)
                        counters["count_patterns_wave_only"] += 1
                    else:
                        exp = brute_chains(n, pat)
                        w = wave_chains(n, pat)
                        assert exp == w, ("oracle self-check", n, pat, exp, w)
                    got = int(mf._count_factorizations(n, tuple(pat)))
                    counters["count_patterns"] += 1
                    if got != exp:
                        viol.append({"sig": "chain_count_wrong",
                                     "witness": {"n": n, "pattern": list(pat), "got": got, "expected": exp},
                                     "case": {"class": cls, "lo": n, "hi": n, "n4max": case["n4max"]}})
                    if exp >= 2:
                        nontriv.append(f"c:{n}:{''.join('I' if p else 'P' for p in pat)}")
                    if sample is None and n % 6 == 0 and L == 3 and pat[0]:
                        sample = {"n": n, "pattern": list(pat), "count": got}
    # keep only the first few violations per signature (they share one mechanism)
    seen, keep = Counter(), []
    for v in viol:
        seen[v["sig"]] += 1
        if seen[v["sig"]] <= 3:
            keep.append(v)
    counters.update({"violating_points_" + k: c for k, c in seen.items()})
    return {"status": "violation" if keep else "ok", "violations": keep, "nontrivial": nontriv,
            "counters": dict(counters), "sample": sample}
