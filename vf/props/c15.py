"""C15 - compressing pmapping tables for joining loses no per-row detail."""
import json
import math
import random

ID = "C15"
LEVEL = "exploration"
CHUNK = 4
CASE_TIMEOUT = 900
REQUIRED_COUNTERS = ["round_trips", "result_cells_checked"]
RULE = ("synthetic lists of PmappingGroups per Einsum (1-3 Einsums, 1-4 groups each, 0/1/many rows, per-group column sets) "
        "whose every non-joining cell holds a unique token (einsum, group, row, column) - or, in a third of the items, a value "
        "from a tiny set so that distinct source rows carry identical details; compress_einsum2pmappings, then a "
        "stand-in for the join that selects compressed-index patterns (first/last row of each group, repeated indices, "
        "only the last group, reversed, random), then decompress_pmappings; every result cell must equal the token of the "
        "source row named by its compressed index (NaN where the source group lacks the column). non-trivial = >= 2 "
        "groups for some Einsum and >= 2 result rows; distinct = (group shapes, selection pattern)")
ASSUMPTIONS = ["the join itself is replaced by an explicit row selection: the property is about what survives compress -> select -> decompress"]
TECHNIQUE = "runtime monitoring: unique-token history check through compress / select / decompress"


def gen_cases(tier, seed):
    rnd = random.Random(f"C15-{seed}")
    n, per = (16, 25) if tier == "quick" else (128, 80)
    return [{"class": "tokens", "seed": rnd.randrange(2**31), "count": per} for _ in range(n)]


def gen_item(rnd):
    einsums = {}
    for e in range(rnd.randint(1, 3)):
        groups = []
        for g in range(rnd.randint(1, 4)):
            rows = rnd.choice([0, 1, 1, 2, 3, 7, 20])
            cols = [f"E{e}<SEP>mapping"]
            for c in [f"E{e}<SEP>action<SEP>GLB<SEP>T<SEP>read", f"E{e}<SEP>energy<SEP>GLB<SEP>T<SEP>read",
                      f"E{e}<SEP>latency<SEP>MAC", f"E{e}<SEP>action<SEP>DRAM<SEP>W<SEP>write"]:
                if rnd.random() < 0.6:
                    cols.append(c)
            groups.append({"rows": rows, "cols": cols})
        if all(g["rows"] == 0 for g in groups):
            groups[0]["rows"] = 2
        einsums[f"E{e}"] = groups
    pattern = rnd.choice(["first_of_each", "last_of_each", "repeated", "last_group_only", "reversed", "random", "single_row"])
    # "dup": detail cells drawn from a tiny value set, so DISTINCT source rows (distinct compressed indices) often carry
    # identical detail values - identity must come from the index, not from the values
    return {"einsums": einsums, "pattern": pattern, "sel_seed": rnd.randrange(2**31), "values": rnd.choice(["unique", "unique", "dup"])}


def token(e, g, r, c, numeric, dup=None):
    if dup is not None:
        return float(dup.choice([0, 1, 2])) if numeric else dup.choice(["tmpl-a", "tmpl-b"])
    if numeric:
        return float((int(e[1:]) * 97 + g * 31 + r) * 8 + (hash(c) % 7))   # small, exact in float32
    return f"{e}|{g}|{r}|{c}"


def check_item(item, counters):
    import numpy as np
    import pandas as pd
    from accelforge.mapper.FFM._join_pmappings import compress_pmappings as cp
    from accelforge.mapper.FFM._join_pmappings.compatibility import Compatibility
    from accelforge.mapper.FFM._join_pmappings.pmapping_dataframe import PmappingDataframe
    from accelforge.mapper.FFM._join_pmappings.pmapping_group import PmappingGroup
    from accelforge.util._frozenset import fzs
    from accelforge.util.parallel import set_n_parallel_jobs

    set_n_parallel_jobs(1)

    def pdf(df):
        return PmappingDataframe(df, n_total_pmappings=len(df), n_valid_pmappings=len(df), ignored_resources=set(),
                                 drop_valid_reservations=False, skip_pareto=True)

    e2p, source = {}, {}
    marker = 0
    dup = random.Random(item["sel_seed"] + 1) if item.get("values") == "dup" else None
    for e, groups in item["einsums"].items():
        lst = []
        for gi, g in enumerate(groups):
            data = {"Total<SEP>energy": [], "reservation<SEP>GLB<SEP>0<SEP>left": []}
            for c in g["cols"]:
                data[c] = []
            for r in range(g["rows"]):
                marker += 1
                data["Total<SEP>energy"].append(float(marker))          # joining column: identifies the source row
                data["reservation<SEP>GLB<SEP>0<SEP>left"].append(0.25)
                src = {}
                for c in g["cols"]:
                    numeric = "mapping" not in c
                    src[c] = token(e, gi, r, c, numeric, dup)
                    data[c].append(src[c])
                source[(e, float(marker))] = src
            df = pd.DataFrame(data)
            if g["rows"] == 0:
                df = df.astype({c: (object if "mapping" in c else np.float32) for c in df.columns})
            lst.append(PmappingGroup(Compatibility(tensors=fzs()), pdf(df)))
        e2p[e] = lst
    viol = []
    try:
        comp, dec = cp.compress_einsum2pmappings(e2p, print_progress=False)
    except Exception as ex:
        return [{"sig": f"compress_exception:{type(ex).__name__}", "witness": {"error": str(ex)[:300], "item": item}}], False
    # what compressed index names which source row (read through the joining marker column)
    idx2marker = {}
    for e, lst in comp.items():
        seen = {}
        for grp in lst:
            d = grp.mappings.data
            leaked = [c for c in d.columns if c.startswith(e + "<SEP>") and "compressed_index" not in c]
            if leaked:
                viol.append({"sig": "non_joining_column_kept_in_compressed_table", "witness": {"einsum": e, "columns": leaked}})
            for ci, m in zip(d[f"{e}<SEP>compressed_index"], d["Total<SEP>energy"]):
                if ci in seen:
                    viol.append({"sig": "compressed_index_not_unique", "witness": {"einsum": e, "index": int(ci)}})
                seen[ci] = float(m)
        idx2marker[e] = seen
    if viol:
        return viol, False
    rnd = random.Random(item["sel_seed"])
    per_e = {}
    for e, lst in comp.items():
        per_group = [list(g.mappings.data[f"{e}<SEP>compressed_index"]) for g in lst]
        nonempty = [x for x in per_group if x]
        pat = item["pattern"]
        if pat == "first_of_each":
            sel = [x[0] for x in nonempty]
        elif pat == "last_of_each":
            sel = [x[-1] for x in nonempty]
        elif pat == "repeated":
            sel = [nonempty[0][0]] * 3 + [nonempty[-1][-1]] * 2
        elif pat == "last_group_only":
            sel = list(nonempty[-1])
        elif pat == "reversed":
            sel = [i for x in reversed(nonempty) for i in reversed(x)]
        elif pat == "single_row":
            sel = [rnd.choice(rnd.choice(nonempty))]
        else:
            allidx = [i for x in nonempty for i in x]
            sel = [rnd.choice(allidx) for _ in range(rnd.randint(1, 12))]
        per_e[e] = sel
    nrows = max(len(s) for s in per_e.values())
    joined = {"Total<SEP>energy": [float(i) for i in range(nrows)]}
    for e, sel in per_e.items():
        joined[f"{e}<SEP>compressed_index"] = [sel[i % len(sel)] for i in range(nrows)]
    jdf = pd.DataFrame(joined)
    try:
        out = cp.decompress_pmappings(pdf(jdf.copy()), dec).data
    except Exception as ex:
        return [{"sig": f"decompress_exception:{type(ex).__name__}", "witness": {"error": str(ex)[:300], "pattern": item["pattern"],
                                                                                "groups": {e: [g["rows"] for g in gs] for e, gs in item["einsums"].items()}}}], False
    counters["round_trips"] = counters.get("round_trips", 0) + 1
    if len(out) != nrows:
        viol.append({"sig": "row_count_changed", "witness": {"before": nrows, "after": len(out), "pattern": item["pattern"]}})
        return viol, False
    out = out.reset_index(drop=True)
    for i in range(nrows):
        for e in per_e:
            ci = joined[f"{e}<SEP>compressed_index"][i]
            src = source[(e, idx2marker[e][ci])]
            allcols = {c for g in item["einsums"][e] for c in g["cols"]}
            for c in allcols:
                counters["result_cells_checked"] = counters.get("result_cells_checked", 0) + 1
                got = out[c][i] if c in out.columns else None
                exp = src.get(c)
                if exp is None:
                    ok = got is None or (isinstance(got, float) and math.isnan(got)) or pd.isna(got)
                else:
                    ok = (got == exp) if not isinstance(exp, float) else (got is not None and not pd.isna(got) and float(got) == exp)
                if not ok:
                    viol.append({"sig": "wrong_detail_for_row", "witness": {"row": i, "einsum": e, "compressed_index": int(ci),
                                                                           "column": c, "got": repr(got), "expected": repr(exp),
                                                                           "pattern": item["pattern"]}})
                    return viol, False
    nontrivial = any(sum(1 for g in gs if g["rows"]) >= 2 for gs in item["einsums"].values()) and nrows >= 2
    return viol, nontrivial


def run_case(case):
    counters, viol, nontriv, sample = {}, [], [], None
    if "item" in case:
        v, _ = check_item(case["item"], counters)
        return {"status": "violation" if v else "ok", "violations": v, "counters": counters, "nontrivial": ["explicit"]}
    rnd = random.Random(case["seed"])
    per_sig = {}
    for _ in range(case["count"]):
        item = gen_item(rnd)
        v, nt = check_item(item, counters)
        for x in v:
            per_sig[x["sig"]] = per_sig.get(x["sig"], 0) + 1
            if per_sig[x["sig"]] <= 2:
                x["case"] = {"class": "tokens", "item": item}
                viol.append(x)
        if nt:
            nontriv.append(json.dumps([{e: [(g["rows"], len(g["cols"])) for g in gs] for e, gs in item["einsums"].items()}, item["pattern"], item["sel_seed"] % 50]))
            if sample is None:
                sample = {"groups": {e: [{"rows": g["rows"], "cols": g["cols"]} for g in gs] for e, gs in item["einsums"].items()},
                          "pattern": item["pattern"]}
    return {"status": "violation" if viol else "ok", "violations": viol, "nontrivial": nontriv,
            "counters": counters, "sample": sample}
