"""C11 - the Pareto filter keeps exactly the non-dominated rows.

Monitor: every matrix is pushed through (a) the JIT kernel via fast_pareto_mask, (b) the
pure-Python twin of the same kernel (numba's .py_func of the same source: defined IEEE
semantics, no fastmath), (c) makepareto_numpy; each mask is compared with the O(n^2)
reference in vf/ref/pareto.py evaluated on exactly the stored values.
"""
import hashlib
import json
import math
import random

import numpy as np

from ..ref import pareto as rp

ID = "C11"
LEVEL = "exploration"
CHUNK = 4
CASE_TIMEOUT = 600
REQUIRED_COUNTERS = ["jit_masks_checked", "twin_masks_checked", "makepareto_numpy_checked"]
RULE = ("seeded hostile matrices (ties on small integer grids, equal column sums, float32 collisions, "
        "magnitudes 1e-30..1e30, +-inf, constant/diff-only/1-varying/2-varying/many-varying columns, large "
        "anti-correlated fronts, prime-factor goals, int/float32/float64/object dtypes) x random goal vectors; "
        "non-trivial = oracle mask has at least one dominated and one kept row and >= 2 varying optimised "
        "columns; distinct = hash of (matrix, goals, dtype)")
ASSUMPTIONS = [
    "NaN and -0.0 are not generated (their equality semantics are not fixed by the property)",
    "per-prime-factor goals are only applied to columns of positive integers",
    "integer data are kept below 2**31 so the float64 oracle is exact",
]
GOALS = ["min", "max", "diff", "min_per_prime_factor", "max_per_prime_factor"]
CLASSES = ["grid", "equal_sums", "magnitude", "near_f32_max", "pos_inf", "mixed_inf", "f64_collide", "prime",
           "structure", "bigfront", "int_large", "object"]


def gen_cases(tier, seed):
    rnd = random.Random(f"C11-{seed}")
    per, reps = (40, 2) if tier == "quick" else (150, 14)
    cases = []
    for cls in CLASSES:
        for r in range(reps):
            cases.append({"class": cls, "seed": rnd.randrange(2**31), "count": per})
    return cases


# --------------------------------------------------------------------------- generators
def _goals(rnd, d, allow_pp_cols=(), p_max=0.3, p_diff=0.2):
    g = []
    for j in range(d):
        x = rnd.random()
        if j in allow_pp_cols and x < 0.5:
            g.append(rnd.choice(["min_per_prime_factor", "max_per_prime_factor"]))
        elif x < p_diff:
            g.append("diff")
        elif x < p_diff + p_max:
            g.append("max")
        else:
            g.append("min")
    return g


def gen_matrix(cls, rnd):
    """Returns (rows as python numbers, goals, dtype name)."""
    n = rnd.choice([2, 3, 5, 8, 13, 17, 33, 40, 64, 100, 150, 300]) if rnd.random() < 0.7 else rnd.randint(2, 300)
    d = rnd.randint(1, 8)
    dtype = rnd.choice(["float32", "float64"])
    pp = ()
    if cls == "grid":
        k = rnd.choice([1, 2, 3, 5, 9])
        rows = [[float(rnd.randint(0, k)) for _ in range(d)] for _ in range(n)]
        dtype = rnd.choice(["float32", "float64", "int64"])
    elif cls == "equal_sums":
        d = rnd.randint(2, 8)
        base = [float(rnd.randint(0, 6)) for _ in range(d)]
        rows = []
        for _ in range(n):
            r = base[:]
            if rnd.random() < 0.6:
                rnd.shuffle(r)
            else:  # move mass between two columns, sum unchanged
                a, b = rnd.sample(range(d), 2)
                t = float(rnd.randint(0, 3))
                r[a] += t
                r[b] -= t
            rows.append(r)
    elif cls in ("magnitude", "near_f32_max"):
        top = 3e37 if cls == "near_f32_max" else 1e30
        scales = [rnd.choice([1e-30, 1e-6, 1.0, 1e6, 1e30, top]) for _ in range(d)]
        rows = [[float(np.float32(rnd.choice([1, 2, 3, 1.5, 7]) * scales[j])) for j in range(d)] for _ in range(n)]
    elif cls in ("pos_inf", "mixed_inf"):
        infs = [math.inf] if cls == "pos_inf" else [math.inf, -math.inf]
        rows = [[rnd.choice(infs) if rnd.random() < 0.12 else float(rnd.randint(0, 4))
                 for _ in range(d)] for _ in range(n)]
    elif cls == "f64_collide":
        dtype = "float64"
        base = [float(rnd.randint(1, 3)) for _ in range(d)]
        rows = [[base[j] + rnd.randint(0, 3) * 1e-12 + (rnd.randint(0, 1) if rnd.random() < 0.3 else 0)
                 for j in range(d)] for _ in range(n)]
    elif cls == "prime":
        dtype = rnd.choice(["int64", "float64", "float32"])
        top = rnd.choice([8, 12, 64, 360, 1000])
        pp = tuple(j for j in range(d) if rnd.random() < 0.6) or (0,)
        rows = [[float(rnd.randint(1, top)) if j in pp else float(rnd.randint(0, 3)) for j in range(d)]
                for _ in range(n)]
    elif cls == "structure":
        d = rnd.randint(1, 8)
        nvary = rnd.choice([0, 1, 1, 2, 2, 2, 3])
        vary = set(rnd.sample(range(d), min(nvary, d)))
        const = [float(rnd.randint(0, 3)) for _ in range(d)]
        k = rnd.choice([2, 5, 50])
        rows = [[float(rnd.randint(0, k)) if j in vary else const[j] for j in range(d)] for _ in range(n)]
    elif cls == "bigfront":
        d = rnd.randint(2, 6)
        n = rnd.choice([40, 100, 200, 300])
        rows = []
        for _ in range(n):
            v = [rnd.random() for _ in range(d)]
            s = sum(x * x for x in v) ** 0.5
            q = rnd.choice([1.0, 1.0, 1.0, 1.1])
            rows.append([float(np.float32(round(q * x / s, 3))) for x in v])
    elif cls == "int_large":
        dtype = "int64"
        top = rnd.choice([2**24 + 8, 2**31 - 1])
        rows = [[float(rnd.choice([top, top - 1, top - 2, rnd.randint(0, top)])) for _ in range(d)] for _ in range(n)]
    elif cls == "object":
        dtype = "object"
        rows = [[rnd.choice([float(rnd.randint(0, 4)), rnd.randint(0, 4)]) for _ in range(d)] for _ in range(n)]
    else:
        raise ValueError(cls)
    if cls == "structure" and rnd.random() < 0.3:
        goals = ["diff"] * d
    elif cls in ("bigfront", "equal_sums"):
        goals = _goals(rnd, d, (), p_max=0.15, p_diff=0.05)
    elif cls == "pos_inf":
        goals = _goals(rnd, d, (), p_max=0.0)
    else:
        goals = _goals(rnd, d, pp)
    if dtype == "int64":
        rows = [[int(x) for x in r] for r in rows]
    if rnd.random() < 0.25:  # inject exact duplicate rows
        for _ in range(max(1, n // 5)):
            rows[rnd.randrange(n)] = list(rows[rnd.randrange(n)])
    return rows, goals, dtype


def to_array(rows, dtype):
    if dtype == "object":
        a = np.empty((len(rows), len(rows[0])), dtype=object)
        for i, r in enumerate(rows):
            for j, v in enumerate(r):
                a[i, j] = v
        return a
    return np.array(rows, dtype=dtype)


# --------------------------------------------------------------------------- monitor
_negate_probe = {}
_TWIN = None


def negate_bug_at(n, k):
    """Does numpy's in-place negate of a strided float32 column misbehave at this shape?"""
    key = (n, k)
    if key not in _negate_probe:
        a = (np.arange(n * k, dtype=np.float32).reshape(n, k) + 1)
        bad = False
        for j in range(k):
            b = a.copy()
            np.negative(b[:, j], out=b[:, j])
            e = a.copy()
            e[:, j] = -a[:, j]
            bad |= not np.array_equal(b, e)
        _negate_probe[key] = bad
    return _negate_probe[key]


def classify(rows, goals, dtype, got, exp, path):
    """Mechanism signature of a mask mismatch (priority order; each test looks at the input,
    not at random values, so a signature names a mechanism)."""
    stored = [[float(v) for v in r] for r in rows]
    optcols = [j for j, g in enumerate(goals) if g != "diff"]
    has_pp = any("prime" in g for g in goals)
    # the filter's own view: optimised columns cast to float32
    view = [list(r) for r in stored]
    for r in view:
        for j in optcols:
            with np.errstate(all="ignore"):
                r[j] = float(np.float32(r[j]))
    cast_changed = view != stored
    arr = np.array(view, dtype=np.float64)
    def _n_varying_objectives():
        o, _ = rp.objective_matrix(stored, goals)
        return sum(1 for k in range(o.shape[1]) if len(set(o[:, k])) > 1)

    vals = arr[:, optcols] if optcols else np.zeros((len(rows), 0))
    if np.isneginf(vals).any() or (np.isposinf(vals).any() and any(g.startswith("max") for g in goals)):
        return "negative_or_mixed_infinite_entries"
    if np.isposinf(vals).any():
        return "positive_infinite_entries"
    # float32 row sums (per group, over the optimised columns) as the sum-sort sees them
    try:
        obj, groups = rp.objective_matrix(view, goals)
        if cast_changed:
            # dominance on the float32 view, duplicates on the stored rows
            m = rp.pareto_mask(view, goals, distinct=False)
            seen = set()
            for i, r in enumerate(stored):
                if tuple(r) in seen:
                    m[i] = False
                seen.add(tuple(r))
            if m == got:
                return "non_float32_values_compared_in_float32"
        with np.errstate(all="ignore"):
            sums = obj.sum(axis=1).astype(np.float32)
        if np.isinf(sums).any():
            return "row_sum_overflows_float32"
        n = len(rows)
        for i in range(n):
            for k in range(n):
                if i != k and groups[i] == groups[k] and sums[i] == sums[k] \
                        and (obj[i] <= obj[k]).all() and (obj[i] < obj[k]).any():
                    return "row_sum_tie_hides_dominance"
    except Exception:
        pass
    # direct path: fast_pareto_mask negates 'max' columns in place when no prime goals are present;
    # makepareto_numpy pre-negates 'max' itself but forwards expanded max_per_prime_factor columns as 'max'
    if (path != "makepareto_numpy" and "max" in goals and not has_pp) or \
            (path == "makepareto_numpy" and "max_per_prime_factor" in goals):
        if negate_bug_at(len(rows), _n_varying_objectives()):
            return "max_goal_inplace_negate"
    kinds = []
    if any(g and not e for g, e in zip(got, exp)):
        kinds.append("kept_dominated_or_duplicate")
    if any(e and not g for g, e in zip(got, exp)):
        kinds.append("dropped_nondominated")
    return f"mask_mismatch:{path}:{dtype}:{'cast' if cast_changed else 'exact'}:{'+'.join(kinds)}"


def check_matrix(rows, goals, dtype, counters, twin=True):
    from accelforge.mapper.FFM._pareto_df import fast_pareto as fp
    from accelforge.mapper.FFM._pareto_df import pareto as pz

    arr = to_array(rows, dtype)
    stored = [[(float(v) if dtype != "int64" else int(v)) for v in r] for r in arr.tolist()]
    exp = rp.pareto_mask(stored, goals, distinct=True)
    viol = []

    def cmp(path, fn):
        try:
            got = [bool(x) for x in fn()]
        except Exception as e:
            counters[path + "_raised"] = counters.get(path + "_raised", 0) + 1
            viol.append({"sig": f"exception:{path}:{type(e).__name__}",
                         "witness": {"error": str(e)[:200], "goals": goals, "dtype": dtype, "rows": rows[:12]}})
            return
        counters[path + "_checked"] = counters.get(path + "_checked", 0) + 1
        if got != exp:
            w = [i for i, (g, e) in enumerate(zip(got, exp)) if g != e][0]
            viol.append({"sig": classify(rows, goals, dtype, got, exp, path),
                         "witness": {"path": path, "goals": goals, "dtype": dtype, "n": len(rows),
                                     "first_bad_row": w, "row": rows[w], "kept_by_impl": got[w],
                                     "dominator": rp.dominated_by(stored, goals, w),
                                     "rows": rows if len(rows) <= 12 else None}})

    cmp("jit_masks", lambda: fp.fast_pareto_mask(arr.copy(), list(goals)))
    cmp("makepareto_numpy", lambda: pz.makepareto_numpy(arr.copy(), list(goals)))
    if twin and len(rows) <= 48:
        global _TWIN
        if _TWIN is None:
            from ..numba_shim import load_twin
            _TWIN = load_twin(fp)
        with np.errstate(all="ignore"):
            cmp("twin_masks", lambda: _TWIN.fast_pareto_mask(arr.copy(), list(goals)))
    # distinct=False variant
    exp_nd = rp.pareto_mask(stored, goals, distinct=False)
    try:
        got_nd = [bool(x) for x in fp.fast_pareto_mask(arr.copy(), list(goals), distinct=False)]
        counters["jit_nodistinct_checked"] = counters.get("jit_nodistinct_checked", 0) + 1
        if got_nd != exp_nd and not viol:
            viol.append({"sig": classify(rows, goals, dtype, got_nd, exp_nd, "jit_nodistinct"),
                         "witness": {"path": "distinct=False", "goals": goals, "dtype": dtype, "n": len(rows),
                                     "rows": rows if len(rows) <= 12 else None}})
    except Exception:
        pass
    arrf = np.array([[float(v) for v in r] for r in stored])
    nvary = sum(1 for j, g in enumerate(goals) if g != "diff" and len(set(arrf[:, j])) > 1)
    nontrivial = (not all(exp)) and any(exp) and nvary >= 2
    return viol, nontrivial


def run_case(case):
    counters = {}
    viol, nontriv, sample = [], [], None
    if case["class"] == "explicit":
        v, nt = check_matrix(case["rows"], case["goals"], case["dtype"], counters)
        return {"status": "violation" if v else "ok", "violations": v, "counters": counters,
                "nontrivial": ["explicit"] if nt else []}
    rnd = random.Random(case["seed"])
    per_sig = {}
    for _ in range(case["count"]):
        rows, goals, dtype = gen_matrix(case["class"], rnd)
        v, nt = check_matrix(rows, goals, dtype, counters)
        for x in v:
            per_sig[x["sig"]] = per_sig.get(x["sig"], 0) + 1
            if per_sig[x["sig"]] <= 2:
                x["case"] = {"class": "explicit", "rows": rows, "goals": goals, "dtype": dtype}
                viol.append(x)
        if nt:
            nontriv.append(hashlib.sha1(json.dumps([rows, goals, dtype]).encode()).hexdigest()[:12])
            if sample is None and len(rows) <= 8:
                sample = {"rows": rows, "goals": goals, "dtype": dtype}
    for s, c in per_sig.items():
        counters["violating_matrices:" + s] = c
    return {"status": "violation" if viol else "ok", "violations": viol, "nontrivial": nontriv,
            "counters": counters, "sample": sample}
