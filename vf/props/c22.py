"""C22 - set expressions follow set algebra over each Einsum's tensors."""
import json
import random

from ..gen import setexpr as sx

ID = "C22"
LEVEL = "exploration"
CHUNK = 4
CASE_TIMEOUT = 900
REQUIRED_COUNTERS = ["expressions_checked", "other_dicts_checked", "overlapping_dicts_checked"]
RULE = ("random workloads of 1-4 Einsums (shared inputs, intermediates, persistent flags) and random set-expression "
        "trees of depth <= 4 over {All, Inputs, Outputs, Intermediates, Shared, Persistent, Nothing, tensor names, "
        "rename names} with & | - ^ ~, placed in an Einsum rename source, in tensors.keep of a Memory and as keys of "
        "a Memory's bits_per_value dictionary (with Other, without Other, deliberately overlapping); observed through "
        "Spec._spec_eval_expressions(einsum_name=e) for every Einsum and compared with frozenset algebra (complement "
        "within the Einsum's tensors); non-trivial = expression depth >= 2 and an Einsum where the result is neither "
        "empty nor everything; distinct = (workload structure, expression, placement)")
ASSUMPTIONS = ["a tensor name that does not belong to the Einsum denotes the empty set at architecture level (observed "
               "behaviour; such names are not used inside rename sources, where they are undefined)",
               "operator precedence is Python's (the expressions are Python expressions)"]
TECHNIQUE = "runtime monitoring: frozenset-algebra oracle vs the real set-expression evaluation on seeded random workloads"


def gen_cases(tier, seed):
    rnd = random.Random(f"C22-{seed}")
    n, per = (16, 30) if tier == "quick" else (128, 80)
    return [{"class": "setexpr", "seed": rnd.randrange(2**31), "count": per} for _ in range(n)]


def build(w, keep_expr, renames, bpv):
    mem = {"!tag": "Memory", "name": "M0", "size": "inf", "area": 1, "leak_power": 0,
           "tensors": {"keep": keep_expr, "may_keep": "All"},
           "actions": [{"name": "read", "energy": 1, "throughput": 1}, {"name": "write", "energy": 1, "throughput": 1}]}
    if bpv is not None:
        mem["bits_per_value"] = bpv
    return {"workload": sx.workload_yaml(w, renames),
            "arch": {"nodes": [mem, {"!tag": "Compute", "name": "MAC", "area": 1, "leak_power": 0,
                                     "actions": [{"name": "compute", "energy": 1, "throughput": 1}]}]}}


def check_one(item, counters):
    """item: {workload, keep(tree), renames {einsum: [[name, tree], ...]}, dict: {kind, keys:[tree], other:bool}}"""
    from accelforge.util.exceptions import EvaluationError
    from .. import yamlgen

    w = item["workload"]
    rnd = random.Random(item.get("render_seed", 0))
    keep_s = sx.render(item["keep"], rnd)
    ren_yaml = {e: {nm: sx.render(t, rnd) for nm, t in lst} for e, lst in item["renames"].items()}
    d = item.get("dict")
    bpv = None
    if d:
        bpv = {}
        for i, t in enumerate(d["keys"]):
            bpv[sx.render(t, rnd)] = i + 1
        if d["other"]:
            bpv["Other"] = 99
        if len(bpv) != len(d["keys"]) + (1 if d["other"] else 0):
            d = None      # two keys rendered identically: YAML duplicate key, drop the dict placement
            bpv = None
    spec = yamlgen.load_spec(build(w, keep_s, ren_yaml, bpv))
    viol = []
    nontrivial = False
    for e in w["einsums"]:
        en = e["name"]
        env, full = sx.named_sets(w, en)
        env = dict(env)
        for nm, t in item["renames"].get(en, []):
            env[nm] = sx.evaluate(t, env, full)
        exp_keep = sx.evaluate(item["keep"], env, full)
        # expected dict outcome
        exp_dict, exp_err = None, False
        if d:
            sets = [sx.evaluate(t, env, full) for t in d["keys"]]
            for i in range(len(sets)):
                for j in range(i + 1, len(sets)):
                    if sets[i] & sets[j]:
                        exp_err = True
            if not exp_err:
                exp_dict = {}
                for i, s in enumerate(sets):
                    for t in s:
                        exp_dict[t] = i + 1
                if d["other"]:
                    for t in full:
                        exp_dict.setdefault(t, 99)
        try:
            ev = spec._spec_eval_expressions(einsum_name=en)
            err = None
        except EvaluationError as ex:
            ev, err = None, ex
        if err is not None:
            if exp_err and ("overlap" in str(err) or "multiple" in str(err)):
                counters["overlapping_dicts_checked"] = counters.get("overlapping_dicts_checked", 0) + 1
                continue
            viol.append({"sig": "valid_expression_raises", "witness": {"einsum": en, "keep": keep_s, "renames": ren_yaml,
                                                                      "dict": bpv, "error": str(err)[:300]}})
            continue
        if exp_err:
            counters["overlapping_dicts_checked"] = counters.get("overlapping_dicts_checked", 0) + 1
            viol.append({"sig": "overlapping_keys_accepted", "witness": {"einsum": en, "dict": bpv,
                                                                          "got": dict(ev.arch["M0"].bits_per_value)}})
            continue
        m = ev.arch["M0"]
        counters["expressions_checked"] = counters.get("expressions_checked", 0) + 1
        got_keep = frozenset(m.tensors.keep.instance)
        if got_keep != exp_keep:
            viol.append({"sig": "wrong_set:keep", "witness": {"einsum": en, "expr": keep_s, "got": sorted(got_keep),
                                                              "expected": sorted(exp_keep), "named_sets": {k: sorted(v) for k, v in env.items() if k in sx.NAMED}}})
        es = ev.workload.einsums[en]
        for nm, t in item["renames"].get(en, []):
            counters["expressions_checked"] += 1
            got = frozenset(es.renames[nm].source.instance)
            exp = env[nm]
            if got != exp:
                viol.append({"sig": "wrong_set:rename", "witness": {"einsum": en, "rename": nm, "expr": ren_yaml[en][nm],
                                                                    "got": sorted(got), "expected": sorted(exp)}})
        if d:
            counters["other_dicts_checked" if d["other"] else "plain_dicts_checked"] = \
                counters.get("other_dicts_checked" if d["other"] else "plain_dicts_checked", 0) + 1
            got = {k: v for k, v in dict(m.bits_per_value).items()}
            if got != exp_dict:
                miss = [t for t in exp_dict if t not in got]
                sig = "dict_tensor_unassigned" if miss else "dict_wrong_assignment"
                viol.append({"sig": sig, "witness": {"einsum": en, "dict": bpv, "got": got, "expected": exp_dict}})
        if sx.depth(item["keep"]) >= 2 and 0 < len(exp_keep) < len(full):
            nontrivial = True
    return viol, nontrivial


def gen_item(rnd):
    w = sx.gen_workload(rnd)
    tensors = sorted({t for e in w["einsums"] for t in e["inputs"] + [e["output"]]})
    atoms = sx.NAMED + tensors
    keep = sx.gen_tree(rnd, atoms)
    renames = {}
    for e in w["einsums"]:
        if rnd.random() < 0.6:
            own = sx.NAMED + e["inputs"] + [e["output"]]
            lst = [["r1", sx.gen_tree(rnd, own, max_depth=3)]]
            if rnd.random() < 0.5:
                lst.append(["r2", sx.gen_tree(rnd, own + ["r1"], max_depth=3)])
            renames[e["name"]] = lst
    d = None
    x = rnd.random()
    if x < 0.75:
        k = rnd.randint(1, 3)
        if rnd.random() < 0.6:
            # disjoint by construction: differences of a chain
            base = [sx.gen_tree(rnd, atoms, max_depth=2) for _ in range(k)]
            keys, acc = [], None
            for b in base:
                keys.append(b if acc is None else ("-", b, acc))
                acc = b if acc is None else ("|", acc, b)
        else:
            keys = [sx.gen_tree(rnd, atoms, max_depth=2) for _ in range(k)]
        d = {"keys": keys, "other": rnd.random() < 0.6}
    return {"workload": w, "keep": keep, "renames": renames, "dict": d, "render_seed": rnd.randrange(2**31)}


def run_case(case):
    counters, viol, nontriv, sample = {}, [], [], None
    if "item" in case:
        v, _ = check_one(case["item"], counters)
        return {"status": "violation" if v else "ok", "violations": v, "counters": counters, "nontrivial": ["explicit"]}
    rnd = random.Random(case["seed"])
    per_sig = {}
    for _ in range(case["count"]):
        item = gen_item(rnd)
        v, nt = check_one(item, counters)
        for x in v:
            per_sig[x["sig"]] = per_sig.get(x["sig"], 0) + 1
            if per_sig[x["sig"]] <= 2:
                x["case"] = {"class": "setexpr", "item": item}
                viol.append(x)
        if nt:
            nontriv.append(json.dumps(item, sort_keys=True)[:3000])
            if sample is None:
                sample = {"workload": item["workload"], "keep": sx.render(item["keep"])}
    return {"status": "violation" if viol else "ok", "violations": viol, "nontrivial": nontriv,
            "counters": counters, "sample": sample}
