"""C30 - network transfer costs match route enumeration."""
ID = "C30"
LEVEL = "exploration"
EXHAUSTIVE = True
CHUNK = 1
CASE_TIMEOUT = 900
REQUIRED_COUNTERS = ["models_compared"]
RULE = ("exhaustive over fanout n in 1..32 (thorough 1..48), stride 1..8, volume in {1,3,10} (thorough adds 7, 64), "
        "relevant (unicast) / irrelevant (multicast), mesh / all-to-all, non-distributed source: the model's "
        "total_cost and max_traffic against a per-link route simulation; non-trivial = n >= 2; "
        "distinct = (topology, relevancy, n, stride, volume)")
ASSUMPTIONS = ["max_hops is outside the statement (recorded only)",
               "distributed sources and partially relevant loops are outside the quantifier",
               "mesh: destinations at 0, s, 2s, ... with the source co-located with destination 0"]
TECHNIQUE = "runtime monitoring: reference route simulator with per-link counters vs the real topology models, exhaustive in bounds"


class _Src:
    def _get_physical_fanout_along(self, dim_name, default=1):
        return 1

    def _get_physical_stride_along(self, dim_name):
        return 1


def gen_cases(tier, seed):
    nmax = 32 if tier == "quick" else 48
    vols = [1, 3, 10] if tier == "quick" else [1, 3, 7, 10, 64]
    return [{"class": topo, "topology": topo, "nmax": nmax, "vols": vols} for topo in ("mesh", "all_to_all")]


def run_case(case):
    from accelforge.frontend._workload_isl._symbolic import Irrelevant, Relevant
    from accelforge.model._looptree.reuse.symbolic import _network as nw
    from ..ref import routes

    viol, nontriv, counters = [], [], {"models_compared": 0}
    sample = None
    per_sig = {}
    topo = case["topology"]
    sim = routes.mesh_line if topo == "mesh" else routes.all_to_all
    ns = [case["n"]] if "n" in case else range(1, case["nmax"] + 1)
    for n in ns:
        for stride in ([case["stride"]] if "stride" in case else range(1, 9)):
            for vol in ([case["volume"]] if "volume" in case else case["vols"]):
                for multicast in (True, False):
                    model = nw.get_topology_model(nw.TopologySpec.MESH if topo == "mesh" else nw.TopologySpec.ALL_TO_ALL)
                    rel = Irrelevant() if multicast else Relevant("r")
                    got = model.per_loop_transfer_cost(rel, shape_repeats=n, last_fanout=stride, volume=vol,
                                                       src_component=_Src(), dim_name="X")
                    hops, traffic = sim(n, stride, vol, multicast)
                    counters["models_compared"] += 1
                    bad = []
                    if float(got.total_cost) != float(hops):
                        bad.append("total_hops")
                    if float(got.max_traffic) != float(traffic):
                        bad.append("max_traffic")
                    if bad:
                        if n == 1 and bad == ["max_traffic"] and multicast:
                            sig = "multicast_traffic_at_fanout_1"
                        else:
                            sig = f"{topo}:{'multicast' if multicast else 'unicast'}:{'+'.join(bad)}"
                        per_sig[sig] = per_sig.get(sig, 0) + 1
                        if per_sig[sig] <= 2:
                            viol.append({"sig": sig, "witness": {
                                "topology": topo, "multicast": multicast, "n": n, "stride": stride, "volume": vol,
                                "model": {"total_cost": float(got.total_cost), "max_traffic": float(got.max_traffic),
                                          "max_hops": float(got.max_hops)},
                                "simulated": {"total_hops": hops, "max_link_traffic": traffic}},
                                "case": {"class": topo, "topology": topo, "n": n, "stride": stride, "volume": vol}})
                    if n >= 2:
                        nontriv.append(f"{topo}:{int(multicast)}:{n}:{stride}:{vol}")
                    if sample is None and n == 4 and stride == 2 and not multicast:
                        sample = {"topology": topo, "unicast": True, "n": n, "stride": stride, "volume": vol,
                                  "model_total": float(got.total_cost), "model_max_traffic": float(got.max_traffic),
                                  "sim_total": hops, "sim_max_traffic": traffic}
    for s, c in per_sig.items():
        counters["violating_points:" + s] = c
    return {"status": "violation" if viol else "ok", "violations": viol, "nontrivial": nontriv,
            "counters": counters, "sample": sample}
