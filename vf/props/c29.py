"""C29 - renames resolve with per-Einsum entries overriding defaults."""
import json
import random

from ..gen import setexpr as sx

ID = "C29"
LEVEL = "exploration"
CHUNK = 4
CASE_TIMEOUT = 900
REQUIRED_COUNTERS = ["resolutions_checked", "expected_count_mismatches_checked"]
RULE = ("random workloads of 1-3 Einsums with random tensor AND rank-variable rename tables at the three places (top-level 'default', "
        "top-level per-Einsum, Einsum-local; dict and list forms; sources from the C22 expression generator; "
        "expected_count right, wrong or absent); for every Einsum and name the source resolved by "
        "Spec._spec_eval_expressions(einsum_name=e) is compared with the precedence lookup (Einsum-local, else "
        "top-level entry under the Einsum, else default) evaluated in frozenset algebra; a wrong expected_count on "
        "the resolved entry must raise EvaluationError; non-trivial = the Einsum has a name that is overridden at a "
        "more specific place; distinct = the rename tables + workload")
ASSUMPTIONS = ["a name given both Einsum-locally and under the Einsum at top level is not ordered by the property: not generated",
               "default sources only use the named sets (tensor names of other Einsums are undefined there)"]
TECHNIQUE = "runtime monitoring: precedence-lookup + set-algebra oracle vs the real rename resolution on seeded random rename tables"


def gen_cases(tier, seed):
    rnd = random.Random(f"C29-{seed}")
    n, per = (16, 30) if tier == "quick" else (128, 80)
    return [{"class": "renames", "seed": rnd.randrange(2**31), "count": per} for _ in range(n)]


def gen_item(rnd):
    w = sx.gen_workload(rnd, rnd.randint(1, 3))
    names = ["d1", "d2", "x1"]
    default = {}
    for nm in ("d1", "d2"):
        if rnd.random() < 0.8:
            default[nm] = {"tree": sx.gen_tree(rnd, sx.NAMED, max_depth=2), "count": rnd.choice(["none", "none", "right", "wrong"])}
    top, local = {}, {}
    for e in w["einsums"]:
        own = sx.NAMED + e["inputs"] + [e["output"]]
        t, l = {}, {}
        for nm in names:
            x = rnd.random()
            entry = {"tree": sx.gen_tree(rnd, own, max_depth=2), "count": rnd.choice(["none", "none", "right", "wrong"])}
            if x < 0.3:
                t[nm] = entry
            elif x < 0.55:
                l[nm] = entry
        if t:
            top[e["name"]] = t
        if l:
            local[e["name"]] = l
    # rank-variable renames (every Einsum iterates a, b): same three places, same precedence
    RV_SRC = ["a", "b", "a | b"]
    rv = {"default": {}, "top": {}, "local": {}}
    for nm in ("rv1", "rv2"):
        if rnd.random() < 0.7:
            rv["default"][nm] = rnd.choice(RV_SRC)
    for e in w["einsums"]:
        for nm in ("rv1", "rv2", "rv3"):
            x = rnd.random()
            if x < 0.3:
                rv["top"].setdefault(e["name"], {})[nm] = rnd.choice(RV_SRC)
            elif x < 0.55:
                rv["local"].setdefault(e["name"], {})[nm] = rnd.choice(RV_SRC)
    return {"workload": w, "default": default, "top": top, "local": local, "rv": rv,
            "list_form": {"default": rnd.random() < 0.5, "top": rnd.random() < 0.5, "local": rnd.random() < 0.5},
            "render_seed": rnd.randrange(2**31)}


def _count_for(entry, value_size):
    if entry["count"] == "right":
        return value_size
    if entry["count"] == "wrong":
        return value_size + 1
    return None


def build(item):
    """YAML for the item. expected_count needs the evaluated size, which is per Einsum; for 'default'
    entries the count is taken on the first Einsum (and the oracle recomputes per Einsum)."""
    w = item["workload"]
    rnd = random.Random(item["render_seed"])
    first = w["einsums"][0]["name"]

    def size_in(tree, ename, extra_env=None):
        env, full = sx.named_sets(w, ename)
        return len(sx.evaluate(tree, env, full))

    def table(entries, ename, as_list):
        if as_list or any(e["count"] != "none" for e in entries.values()):
            out = []
            for nm, e in entries.items():
                d = {"name": nm, "source": sx.render(e["tree"], rnd)}
                c = _count_for(e, size_in(e["tree"], ename))
                if c is not None:
                    d["expected_count"] = c
                out.append(d)
            return out
        return {nm: sx.render(e["tree"], rnd) for nm, e in entries.items()}

    ren_local = {en: table(es, en, item["list_form"]["local"]) for en, es in item["local"].items()}
    rv = item.get("rv") or {"default": {}, "top": {}, "local": {}}
    for en, es in rv["local"].items():
        cur = ren_local.get(en)
        if cur is None:
            ren_local[en] = dict(es)
        elif isinstance(cur, dict):
            cur.update(es)
        else:
            cur.extend({"name": nm, "source": src} for nm, src in es.items())
    wl = sx.workload_yaml(w, ren_local)
    einsums = []
    if item["default"] or rv["default"]:
        einsums.append({"name": "default", "tensor_accesses": table(item["default"], first, item["list_form"]["default"]) if item["default"] else []})
        if rv["default"]:
            einsums[-1]["rank_variables"] = [{"name": nm, "source": src} for nm, src in rv["default"].items()]
    for en in sorted(set(item["top"]) | set(rv["top"])):
        ent = {"name": en, "tensor_accesses": table(item["top"][en], en, item["list_form"]["top"]) if en in item["top"] else []}
        if en in rv["top"]:
            ent["rank_variables"] = [{"name": nm, "source": src} for nm, src in rv["top"][en].items()]
        einsums.append(ent)
    spec = {"workload": wl,
            "arch": {"nodes": [{"!tag": "Memory", "name": "M0", "size": "inf", "area": 1, "leak_power": 0,
                                "actions": [{"name": "read", "energy": 1, "throughput": 1}, {"name": "write", "energy": 1, "throughput": 1}]},
                               {"!tag": "Compute", "name": "MAC", "area": 1, "leak_power": 0,
                                "actions": [{"name": "compute", "energy": 1, "throughput": 1}]}]}}
    if einsums:
        spec["renames"] = {"einsums": einsums}
    return spec


def check_one(item, counters):
    from accelforge.util.exceptions import EvaluationError
    from .. import yamlgen

    w = item["workload"]
    desc = build(item)
    spec = yamlgen.load_spec(desc)
    first = w["einsums"][0]["name"]
    viol, nontrivial = [], False
    # pass 1: the precedence lookup for every Einsum, and which resolved entries carry a wrong count
    plan, mismatch_places = {}, []
    for e in w["einsums"]:
        en = e["name"]
        env, full = sx.named_sets(w, en)
        resolved, where = {}, {}
        for nm in ("d1", "d2", "x1"):
            if nm in item["local"].get(en, {}):
                ent, wh, cnt_ein = item["local"][en][nm], "einsum_local", en
            elif nm in item["top"].get(en, {}):
                ent, wh, cnt_ein = item["top"][en][nm], "toplevel_per_einsum", en
            elif nm in item["default"]:
                ent, wh, cnt_ein = item["default"][nm], "default", first
            else:
                continue
            val = sx.evaluate(ent["tree"], env, full)
            resolved[nm], where[nm] = val, wh
            if ent["count"] != "none":
                env0, full0 = sx.named_sets(w, cnt_ein)
                declared = _count_for(ent, len(sx.evaluate(ent["tree"], env0, full0)))
                if declared != len(val):
                    mismatch_places.append(wh)
            if wh != "default" and nm in item["default"]:
                nontrivial = True
        plan[en] = (resolved, where, env, full)
    # a shadowed entry (one that loses the lookup) with an expected_count is not ordered by the property
    shadowed_with_count = any(
        ent is not None and ent["count"] != "none" and plan[en][1].get(nm) != src
        for en in plan for nm in ("d1", "d2", "x1")
        for src, ent in (("default", item["default"].get(nm)), ("toplevel_per_einsum", item["top"].get(en, {}).get(nm))))
    for e in w["einsums"]:
        en = e["name"]
        resolved, where, env, full = plan[en]
        try:
            ev = spec._spec_eval_expressions(einsum_name=en)
            err = None
        except EvaluationError as ex:
            ev, err = None, ex
        if mismatch_places:
            # evaluating any Einsum evaluates the renames of all of them: every query must be rejected
            counters["expected_count_mismatches_checked"] = counters.get("expected_count_mismatches_checked", 0) + 1
            if err is None:
                only_top = all(p_ == "toplevel_per_einsum" for p_ in mismatch_places)
                viol.append({"sig": "toplevel_per_einsum_ignored" if only_top else "expected_count_mismatch_accepted",
                             "witness": {"einsum": en, "mismatching_entries_at": mismatch_places,
                                         "spec_renames": desc.get("renames"),
                                         "einsum_renames": {x["name"]: x.get("renames") for x in desc["workload"]["einsums"]}}})
            continue
        if err is not None:
            if shadowed_with_count:
                counters["not_judged_shadowed_entry_with_count"] = counters.get("not_judged_shadowed_entry_with_count", 0) + 1
                continue
            viol.append({"sig": "valid_renames_raise", "witness": {"einsum": en, "error": str(err)[:300],
                                                                  "spec_renames": desc.get("renames")}})
            continue
        es = ev.workload.einsums[en]
        for nm, exp in resolved.items():
            counters["resolutions_checked"] = counters.get("resolutions_checked", 0) + 1
            try:
                got = frozenset(es.renames[nm].source.instance)
            except Exception as ex:
                viol.append({"sig": "toplevel_per_einsum_ignored" if where[nm] == "toplevel_per_einsum" else f"name_unresolved:{where[nm]}", "witness": {"einsum": en, "name": nm, "error": str(ex)[:200]}})
                continue
            if got != exp:
                # which entry did it pick instead?
                picked = None
                for src, ent in (("default", item["default"].get(nm)), ("toplevel_per_einsum", item["top"].get(en, {}).get(nm)),
                                 ("einsum_local", item["local"].get(en, {}).get(nm))):
                    if ent is not None and src != where[nm] and sx.evaluate(ent["tree"], env, full) == got:
                        picked = src
                sig = f"{where[nm]}_ignored" if picked else f"wrong_source:{where[nm]}"
                if where[nm] == "toplevel_per_einsum" and picked == "default":
                    sig = "toplevel_per_einsum_ignored"
                viol.append({"sig": sig, "witness": {"einsum": en, "name": nm, "expected_from": where[nm], "picked": picked,
                                                     "got": sorted(got), "expected": sorted(exp),
                                                     "spec_renames": desc.get("renames")}})
        # rank-variable renames: Einsum-local, else top-level entry under the Einsum, else default
        rv = item.get("rv") or {"default": {}, "top": {}, "local": {}}
        for nm in ("rv1", "rv2", "rv3"):
            for wh, tab in (("einsum_local", rv["local"].get(en, {})), ("toplevel_per_einsum", rv["top"].get(en, {})), ("default", rv["default"])):
                if nm in tab:
                    break
            else:
                continue
            exp = frozenset(x.strip() for x in tab[nm].split("|"))
            counters["rank_variable_resolutions_checked"] = counters.get("rank_variable_resolutions_checked", 0) + 1
            entries = [r for r in es.renames if str(r.name) == nm]
            if len(entries) != 1:
                viol.append({"sig": "rank_variable_rename_listed_%d_times" % len(entries),
                             "witness": {"einsum": en, "name": nm, "expected_from": wh, "sources": [sorted(str(x) for x in r.source) for r in entries],
                                         "spec_renames": desc.get("renames"), "einsum_renames": {x["name"]: x.get("renames") for x in desc["workload"]["einsums"]}}})
                continue
            got = frozenset(str(x) for x in entries[0].source)
            if got != exp:
                viol.append({"sig": f"rank_variable_rename_wrong_source:{wh}",
                             "witness": {"einsum": en, "name": nm, "expected_from": wh, "got": sorted(got), "expected": sorted(exp),
                                         "spec_renames": desc.get("renames")}})
            if wh != "default" and nm in rv["default"]:
                nontrivial = True
    return viol, nontrivial


def run_case(case):
    counters, viol, nontriv, sample = {}, [], [], None
    if "item" in case:
        v, _ = check_one(case["item"], counters)
        return {"status": "violation" if v else "ok", "violations": v, "counters": counters, "nontrivial": ["explicit"]}
    rnd = random.Random(case["seed"])
    per_sig = {}
    for _ in range(case["count"]):
        item = gen_item(rnd)
        v, nt = check_one(item, counters)
        for x in v:
            per_sig[x["sig"]] = per_sig.get(x["sig"], 0) + 1
            if per_sig[x["sig"]] <= 2:
                x["case"] = {"class": "renames", "item": item}
                viol.append(x)
        if nt:
            nontriv.append(json.dumps(item, sort_keys=True)[:3000])
            if sample is None:
                d = build(item)
                sample = {"renames": d.get("renames"), "einsum_renames": {e["name"]: e.get("renames") for e in d["workload"]["einsums"]}}
    return {"status": "violation" if viol else "ok", "violations": viol, "nontrivial": nontriv,
            "counters": counters, "sample": sample}
