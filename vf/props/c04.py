"""C04 - mapper-reported metrics equal the model's evaluation of the returned mapping."""
import json
import random

from ..gen import specs as gs

ID = "C04"
LEVEL = "exploration"
CHUNK = 2
CASE_TIMEOUT = 600
REQUIRED_COUNTERS = ["rows_joined_vs_standalone", "rows_detailed_vs_standalone"]
RULE = ("specs from the shared small-spec family (1-3 Einsums, 2-3 memory levels, inf/generous/tight capacities, "
        "keep/may_keep variants, trade-off and random cost tables) x metric sets {ENERGY, LATENCY, EDP, ENERGY|LATENCY, "
        "ENERGY|LATENCY|RESOURCE_USAGE}; map_workload_to_arch once with eval_in_detail=False (joiner's numbers) and once "
        "with eval_in_detail=True; every returned row's tree is rebuilt from user-facing fields only and evaluated by "
        "evaluate_mapping on a fresh, unevaluated spec; totals (energy, latency, EDP, per-memory usage) and the per-Einsum "
        "energy/latency breakdown must agree up to float32 rounding. non-trivial = the row's tree has >= 2 loops; "
        "distinct = (spec class, ranks, metrics, tree)")
ASSUMPTIONS = ["float32 tolerance 2^-18 relative on totals (joined totals are float32 sums)"]
TECHNIQUE = "runtime monitoring: independent re-evaluation of every returned mapping (rebuilt from user-facing fields) vs the joiner's and the detailed totals"

METRICS = ["ENERGY", "LATENCY", "ENERGY_DELAY_PRODUCT", "ENERGY|LATENCY", "ENERGY|LATENCY|RESOURCE_USAGE"]


def gen_cases(tier, seed):
    rnd = random.Random(f"C04-{seed}")
    n = 40 if tier == "quick" else 500
    cases = []
    for i in range(n):
        d = gs.gen_spec(rnd, rnd.choice(["mm1", "mv1", "ew1", "chain2", "chain2", "fanin2", "mvchain2"] + (["chain3"] if tier != "quick" else [])),
                        levels=rnd.choice([2, 2, 2, 3]))
        cases.append({"class": d["class"].split("/")[0] + "/" + d["arch"]["size_class"], "desc": d,
                      "metrics": METRICS[i % len(METRICS)]})
    return cases


def n_loops(tree):
    n = 0
    for x in tree:
        if x["t"] in ("T", "P"):
            n += 1
        if x["t"] == "Q":
            n += sum(n_loops(b) for b in x["branches"])
    return n


def run_case(case):
    from .. import harness as H
    d, metrics = case["desc"], case["metrics"]
    counters, viol, nontriv, sample = {}, [], [], None

    def bump(k, n=1):
        counters[k] = counters.get(k, 0) + n
    for detail in (False, True):
        try:
            res = H.run_mapper(d, metrics, eval_in_detail=detail)
        except H.NoMapping:
            bump("no_valid_mapping")
            return {"status": "ok", "counters": counters, "reason": "no valid mapping"}
        data = res.data
        rows = H.result_rows(res)
        for i, row in enumerate(rows[:12]):
            try:
                ev = H.eval_tree(d, row["tree"])
            except Exception as ex:
                viol.append({"sig": f"returned_mapping_rejected_by_model:{type(ex).__name__}",
                             "witness": {"detail": detail, "row": i, "error": str(ex)[:300], "tree": row["tree"]}})
                continue
            bump("rows_detailed_vs_standalone" if detail else "rows_joined_vs_standalone")
            e2, l2 = float(ev.energy()), float(ev.latency())
            ru = {k: float(v) for k, v in ev.resource_usage().items()}
            bad = []
            if row["energy"] is not None and not H.close(row["energy"], e2):
                bad.append(["energy", row["energy"], e2])
            if row["latency"] is not None and not H.close(row["latency"], l2):
                bad.append(["latency", row["latency"], l2])
            if row["edp"] is not None and not H.close(row["edp"], e2 * l2, rel=2.0 ** -16):
                bad.append(["edp", row["edp"], e2 * l2])
            for mem, u in row["usage"].items():
                if mem in ru and not H.close(u, ru[mem], rel=2.0 ** -18, abs_tol=1e-6):
                    bad.append(["usage:" + mem, u, ru[mem]])
            if detail:
                # per-Einsum breakdown columns
                pe = ev.energy(per_einsum=True)
                pl = ev.latency(per_einsum=True) if _accepts(ev.latency, "per_einsum") else None
                for en in [e["name"] for e in d["workload"]["einsums"]]:
                    cols = [c for c in data.columns if c.startswith(en + H.SEP + "energy" + H.SEP)]
                    if cols:
                        tot = float(sum(float(data.iloc[i][c]) for c in cols))
                        if not H.close(tot, float(pe[en]), rel=2.0 ** -16):
                            bad.append(["per_einsum_energy:" + en, tot, float(pe[en])])
                        bump("per_einsum_breakdowns_compared")
            if bad:
                what = sorted({b[0].split(":")[0] for b in bad})
                viol.append({"sig": ("detailed" if detail else "joined") + "_total_differs:" + "+".join(what),
                             "witness": {"metrics": metrics, "row": i, "differences(reported, standalone)": bad, "tree": row["tree"]}})
            if n_loops(row["tree"]) >= 2:
                nontriv.append(json.dumps([d["class"], d["workload"]["ranks"], metrics, row["tree"]], sort_keys=True))
            if sample is None:
                sample = {"spec": gs.summary(d), "metrics": metrics, "reported": {k: row[k] for k in ("energy", "latency", "edp", "usage")},
                          "standalone": {"energy": e2, "latency": l2, "usage": ru}, "tree": row["tree"]}
    return {"status": "violation" if viol else "ok", "violations": viol[:4], "nontrivial": nontriv,
            "counters": counters, "sample": sample}


def _accepts(fn, name):
    import inspect
    try:
        return name in inspect.signature(fn).parameters
    except Exception:
        return False
