"""C04 - mapper-reported metrics equal the model's evaluation of the returned mapping."""
import json
import random

from ..gen import specs as gs

ID = "C04"
LEVEL = "exploration"
CHUNK = 2
CASE_TIMEOUT = 600
REQUIRED_COUNTERS = ["rows_joined_vs_standalone", "rows_detailed_vs_standalone"]
RULE = ("specs from the shared small-spec family (1-3 Einsums, 2-3 memory levels, inf/generous/tight capacities, "
        "keep/may_keep variants, trade-off and random cost tables; a DENSE class with bounds 8/16 whose fronts contain several rows "
        "of one pmapping template; a PERSISTENT class with a finite backing store) x metric sets {ENERGY, LATENCY, EDP, ENERGY|LATENCY, "
        "ENERGY|LATENCY|RESOURCE_USAGE}; map_workload_to_arch once with eval_in_detail=False (joiner's numbers) and once "
        "with eval_in_detail=True; every returned row's tree is rebuilt from user-facing fields only and evaluated by "
        "evaluate_mapping on a fresh, unevaluated spec; totals (energy, latency, EDP, per-memory usage) and the per-Einsum "
        "energy/latency breakdown must agree up to float32 rounding. non-trivial = the row's tree has >= 2 loops; "
        "distinct = (spec class, ranks, metrics, tree)")
ASSUMPTIONS = ["float32 tolerance 2^-18 relative on totals (joined totals are float32 sums)"]
TECHNIQUE = "runtime monitoring: independent re-evaluation of every returned mapping (rebuilt from user-facing fields) vs the joiner's and the detailed totals"

METRICS = ["ENERGY", "LATENCY", "ENERGY_DELAY_PRODUCT", "ENERGY|LATENCY", "ENERGY|LATENCY|RESOURCE_USAGE"]


def gen_cases(tier, seed):
    rnd = random.Random(f"C04-{seed}")
    n = 40 if tier == "quick" else 320
    cases = []
    for i in range(n):
        d = gs.gen_spec(rnd, rnd.choice(["mm1", "mv1", "ew1", "chain2", "chain2", "fanin2", "mvchain2"] + (["chain3"] if tier != "quick" else [])),
                        levels=rnd.choice([2, 2, 2, 3]))
        cls = d["class"].split("/")[0] + "/" + d["arch"]["size_class"]
        if i % 5 == 4:
            # persistent tensors (resident in their backing store for the whole workload) next to non-persistent
            # ones in a FINITE backing store, so that a wrong persistent flag in the returned tree changes usage
            if rnd.random() < 0.4:
                d = gs.gen_spec(rnd, "pshare2", levels=2)
                d["workload"]["persistent"] = "P"
            else:
                d["workload"]["persistent"] = rnd.choice(["Inputs - Intermediates", "All - Intermediates", "Outputs - Intermediates"])
            d["arch"]["mems"][0]["size"] = 2 ** 16 * d["workload"]["bits"]
            cls = d["class"].split("/")[0] + "/persistent"
        metrics = METRICS[(i // 5 if i % 5 == 4 else i) % len(METRICS)]
        if i % 5 == 2:
            # DENSE fronts: larger bounds on a tight buffer with a real energy/latency trade-off, so that SEVERAL returned
            # rows come from the same pmapping template with different tile shapes
            wk = rnd.choice(["mm1", "mm1", "chain2"])
            d = gs.gen_spec(rnd, wk, levels=2, size_class="tight", costs="tradeoff")
            for rv in d["workload"]["ranks"]:
                d["workload"]["ranks"][rv] = rnd.choice([8, 16] if wk == "mm1" else [8, 8, 16])
            sizes = sorted(gs.tensor_sizes(d["workload"]).values())
            d["arch"]["mems"][1]["size"] = rnd.randint(max(8, sizes[0] // 4), max(16, sizes[-1])) * d["workload"]["bits"]
            cls = wk + "/dense"
            metrics = rnd.choice(["ENERGY|LATENCY", "ENERGY|LATENCY|RESOURCE_USAGE"])
        cases.append({"class": cls, "desc": d, "metrics": metrics})
    return cases


def n_loops(tree):
    n = 0
    for x in tree:
        if x["t"] in ("T", "P"):
            n += 1
        if x["t"] == "Q":
            n += sum(n_loops(b) for b in x["branches"])
    return n


def run_case(case):
    from .. import harness as H
    d, metrics = case["desc"], case["metrics"]
    counters, viol, nontriv, sample = {}, [], [], None

    def bump(k, n=1):
        counters[k] = counters.get(k, 0) + n
    for detail in (False, True):
        try:
            res = H.run_mapper(d, metrics, eval_in_detail=detail)
        except H.NoMapping:
            bump("no_valid_mapping")
            return {"status": "ok", "counters": counters, "reason": "no valid mapping"}
        except (AssertionError, AttributeError, KeyError, IndexError, TypeError) as ex:
            import traceback
            if not any("/accelforge/" in f.filename for f in traceback.extract_tb(ex.__traceback__)):
                raise
            bump("mapper_internal_error(judged by C03):" + type(ex).__name__)
            return {"status": "ok", "counters": counters, "reason": "mapper raised an internal error"}
        data = res.data
        rows = H.result_rows(res)
        tcols = [c for c in data.columns if c.endswith(H.SEP + "mapping") and not c.startswith("Total")]
        ids = [tuple(id(data.iloc[k][c]) for c in tcols) for k in range(len(data))]
        bump("rows_sharing_a_template_object_with_an_earlier_row", len(ids) - len(set(ids)))
        for i, row in enumerate(rows[:12]):
            try:
                ev = H.eval_tree(d, row["tree"])
            except Exception as ex:
                from ..ref.validator import validate
                if any(p[0] == "tensor_held_twice_by_one_component" for p in validate(d, row["tree"], check_capacity=False)):
                    bump("ill_formed_returned_tree(judged by C03)")
                    continue
                viol.append({"sig": f"returned_mapping_rejected_by_model:{type(ex).__name__}",
                             "witness": {"detail": detail, "row": i, "error": str(ex)[:300], "tree": row["tree"]}})
                continue
            bump("rows_detailed_vs_standalone" if detail else "rows_joined_vs_standalone")
            e2, l2 = float(ev.energy()), float(ev.latency())
            ru = {k: float(v) for k, v in ev.resource_usage().items()}
            bad = []
            if row["energy"] is not None and not H.close(row["energy"], e2):
                bad.append(["energy", row["energy"], e2])
            if row["latency"] is not None and not H.close(row["latency"], l2):
                bad.append(["latency", row["latency"], l2])
            if row["edp"] is not None and not H.close(row["edp"], e2 * l2, rel=2.0 ** -16):
                bad.append(["edp", row["edp"], e2 * l2])
            for mem, u in row["usage"].items():
                if mem in ru and not H.close(u, ru[mem], rel=2.0 ** -18, abs_tol=1e-6):
                    bad.append(["usage:" + mem, u, ru[mem]])
            if detail:
                # per-Einsum breakdown columns
                pe = ev.energy(per_einsum=True)
                pl = ev.latency(per_einsum=True) if _accepts(ev.latency, "per_einsum") else None
                for en in [e["name"] for e in d["workload"]["einsums"]]:
                    cols = [c for c in data.columns if c.startswith(en + H.SEP + "energy" + H.SEP)]
                    if cols:
                        tot = float(sum(float(data.iloc[i][c]) for c in cols))
                        if not H.close(tot, float(pe[en]), rel=2.0 ** -16):
                            bad.append(["per_einsum_energy:" + en, tot, float(pe[en])])
                        bump("per_einsum_breakdowns_compared")
            if bad and all(b[0].startswith("usage:") for b in bad) and _explained_by_holder_order(H, d, row["tree"], bad, bump):
                viol.append({"sig": "usage_depends_on_order_of_adjacent_holders",
                             "witness": {"metrics": metrics, "row": i, "differences(reported, standalone)": bad, "tree": row["tree"]}})
                bad = []
            if bad:
                what = sorted({b[0].split(":")[0] for b in bad})
                viol.append({"sig": ("detailed" if detail else "joined") + "_total_differs:" + "+".join(what),
                             "witness": {"metrics": metrics, "row": i, "differences(reported, standalone)": bad, "tree": row["tree"]}})
            if n_loops(row["tree"]) >= 2:
                nontriv.append(json.dumps([d["class"], d["workload"]["ranks"], metrics, row["tree"]], sort_keys=True))
            if sample is None:
                sample = {"spec": gs.summary(d), "metrics": metrics, "reported": {k: row[k] for k in ("energy", "latency", "edp", "usage")},
                          "standalone": {"energy": e2, "latency": l2, "usage": ru}, "tree": row["tree"]}
    return {"status": "violation" if viol else "ok", "violations": viol[:4], "nontrivial": nontriv,
            "counters": counters, "sample": sample}


def _explained_by_holder_order(H, d, tree, bad, bump, cap=60):
    """Attribution of a usage difference: the detailed run evaluates the joiner's own tree, the user gets the same
    loop nest with adjacent storage nodes consolidated.  If re-ordering adjacent storage nodes (one tensor per node)
    of the returned tree makes the model reproduce the reported usage, the difference is the order dependence of
    the model's usage (the mechanism recorded for C06), not a new defect."""
    from ..ref.treevariants import holder_order_variants
    want = {b[0].split(":", 1)[1]: b[1] for b in bad}
    for v in holder_order_variants(d, tree, cap):
        try:
            ru = {k: float(x) for k, x in H.eval_tree(d, v).resource_usage().items()}
        except Exception:
            continue
        bump("holder_order_variants_evaluated")
        if all(H.close(ru.get(m, -1), u, rel=2.0 ** -18, abs_tol=1e-6) for m, u in want.items()):
            return True
    return False


def _accepts(fn, name):
    import inspect
    try:
        return name in inspect.signature(fn).parameters
    except Exception:
        return False
