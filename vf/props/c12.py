"""C12 - pmapping-table Pareto pruning respects objectives, reservations and tolerances."""
import hashlib
import json
import math
import random

ID = "C12"
LEVEL = "exploration"
CHUNK = 4
CASE_TIMEOUT = 900
REQUIRED_COUNTERS = ["zero_tolerance_tables", "tolerance_tables", "constant_column_variants"]
RULE = ("random pmapping tables (<= 200 rows) with objective columns (Total<SEP>*), reservation columns "
        "(reservation<SEP>mem<SEP>n<SEP>left/right), fused-loop columns (incl. n_iterations ones), tensor / mapping / "
        "action columns, float32 / float64 / int / object dtypes, many ties; makepareto called with tolerances from "
        "{0, 0.01, 0.1, 0.5} x absolute {0, 0.01, 0.1}. Zero tolerance: kept index set == oracle (rows not strictly "
        "dominated on objective+reservation columns by a row with identical fused-loop tile shapes; first of duplicates). "
        "Tolerance t: every dropped row has a kept row in its fused-loop group that is <= (1+t) x on every objective and "
        "<= max(r(1+t_res), r+abs) on every reservation. Adding / permuting constant columns must not change the kept "
        "set. non-trivial = at least one row dropped and one kept and >= 2 varying pruning columns; distinct = table hash")
ASSUMPTIONS = ["values are exactly representable in float32 and row sums are exact (the float32/sum-sort findings of C11 "
               "are kept out of this check on purpose)",
               "rows that agree on every pruning and fused-loop column are duplicates: the first one is kept"]
TECHNIQUE = "runtime monitoring: dominance-with-slack oracle on seeded random tables vs the real makepareto; metamorphic constant-column variants"

TOLS = [0, 0.01, 0.1, 0.5]
ABS = [0, 0.01, 0.1]


def gen_cases(tier, seed):
    rnd = random.Random(f"C12-{seed}")
    n, per = (16, 40) if tier == "quick" else (128, 120)
    return [{"class": "tables", "seed": rnd.randrange(2**31), "count": per} for _ in range(n)]


def gen_table(rnd):
    n = rnd.choice([1, 2, 3, 5, 8, 20, 50, 120, 200])
    cols = []
    for nm in rnd.sample(["Total<SEP>energy", "Total<SEP>latency", "Total<SEP>edp"], rnd.randint(1, 3)):
        cols.append({"name": nm, "kind": "obj"})
    for i in range(rnd.randint(0, 3)):
        cols.append({"name": f"reservation<SEP>{rnd.choice(['GLB', 'RF'])}<SEP>{i}<SEP>{rnd.choice(['left', 'right'])}", "kind": "res"})
    for i in range(rnd.randint(0, 2)):
        cols.append({"name": f"fused_loop<SEP>tile{i}", "kind": "fused"})
    if rnd.random() < 0.3:
        cols.append({"name": "fused_loop<SEP>n_iterations<SEP>0", "kind": "other_num"})
    if rnd.random() < 0.5:
        cols.append({"name": "tensor<SEP>T1", "kind": "other_obj"})
    if rnd.random() < 0.7:
        cols.append({"name": "E0<SEP>mapping", "kind": "other_num"})
    if rnd.random() < 0.5:
        cols.append({"name": "E0<SEP>action<SEP>GLB<SEP>T1<SEP>read", "kind": "other_num"})
    rnd.shuffle(cols)
    style = rnd.choice(["grid", "grid", "wide", "logcells", "nonpositive"])
    for c in cols:
        k = c["kind"]
        if k == "obj" or k == "res":
            c["dtype"] = rnd.choice(["float32", "float32", "float64"]) if k == "obj" else rnd.choice(["float32", "float64", "int64"])
            if style == "grid":
                top = rnd.choice([1, 2, 4, 9])
                c["vals"] = [float(rnd.randint(1, top + 1)) for _ in range(n)]
            elif style == "wide":
                c["vals"] = [float(rnd.randint(1, 4000)) / (1 if c["dtype"] == "int64" else 8) for _ in range(n)]
            elif style == "logcells":
                # values straddling the boundaries of the (1+t) log grid
                t = rnd.choice([0.01, 0.1, 0.5])
                c["vals"] = []
                for _ in range(n):
                    cell = rnd.randint(0, 12)
                    edge = (1 + t) ** (cell + 0.5)
                    v = edge * rnd.choice([0.999, 1.001, 1.0, (1 + t) ** 0.25])
                    c["vals"].append(float(round(v * 64) / 64) or 1 / 64)
            else:
                c["vals"] = [float(rnd.randint(-2, 3)) for _ in range(n)]
            if c["dtype"] == "int64":
                c["vals"] = [int(round(v)) for v in c["vals"]]
            if rnd.random() < 0.1:
                c["vals"] = [c["vals"][0]] * n      # constant pruning column
        elif k == "fused":
            c["dtype"] = rnd.choice(["int64", "float32", "object"])
            c["vals"] = [rnd.choice([1, 2, 4]) for _ in range(n)]
        elif k == "other_num":
            c["dtype"] = "int64"
            c["vals"] = [rnd.randint(0, 10**6) for _ in range(n)]
        else:
            c["dtype"] = "object"
            c["vals"] = [rnd.choice(["a", "b", "x1"]) for _ in range(n)]
    return {"n": n, "cols": cols}


def to_df(table, extra_cols=(), order=None):
    import numpy as np
    import pandas as pd
    cols = list(table["cols"]) + list(extra_cols)
    if order:
        cols = [cols[i] for i in order]
    data = {}
    for c in cols:
        if c["dtype"] == "object":
            s = pd.Series(list(c["vals"]), dtype=object)
        else:
            s = pd.Series(np.array(c["vals"], dtype=c["dtype"]))
        data[c["name"]] = s
    return pd.DataFrame(data)


def stored(table):
    """Values as stored (float32 rounding applied), per column name."""
    import numpy as np
    out = {}
    for c in table["cols"]:
        if c["dtype"] in ("float32",):
            out[c["name"]] = [float(np.float32(v)) for v in c["vals"]]
        else:
            out[c["name"]] = list(c["vals"])
    return out


def oracle_zero(table):
    st = stored(table)
    n = table["n"]
    prune = [c["name"] for c in table["cols"] if c["kind"] in ("obj", "res")]
    fused = [c["name"] for c in table["cols"] if c["kind"] == "fused"]
    keep = []
    seen = set()
    for i in range(n):
        gi = tuple(st[f][i] for f in fused)
        vi = tuple(float(st[p][i]) for p in prune)
        dominated = False
        for j in range(n):
            if j == i or tuple(st[f][j] for f in fused) != gi:
                continue
            vj = tuple(float(st[p][j]) for p in prune)
            if all(a <= b for a, b in zip(vj, vi)) and any(a < b for a, b in zip(vj, vi)):
                dominated = True
                break
        key = (gi, vi)
        if not dominated and key not in seen:
            keep.append(i)
        seen.add(key)
    return keep


def check_tolerance(table, kept, t_obj, t_res, a_res):
    """Every dropped row must be covered by a kept row of its group within the stated slack."""
    st = stored(table)
    n = table["n"]
    objs = [c["name"] for c in table["cols"] if c["kind"] == "obj"]
    ress = [c["name"] for c in table["cols"] if c["kind"] == "res"]
    fused = [c["name"] for c in table["cols"] if c["kind"] == "fused"]
    kept_set = set(kept)
    eps = 1e-6
    for i in range(n):
        if i in kept_set:
            continue
        gi = tuple(st[f][i] for f in fused)
        ok = False
        for k in kept:
            if tuple(st[f][k] for f in fused) != gi:
                continue
            good = True
            for o in objs:
                r, v = float(st[o][i]), float(st[o][k])
                lim = r * (1 + t_obj) if r > 0 else r
                if v > lim + eps * max(1, abs(lim)):
                    good = False
                    break
            if good:
                for o in ress:
                    r, v = float(st[o][i]), float(st[o][k])
                    lim = max(r * (1 + t_res) if r > 0 else r, r + a_res)
                    if v > lim + eps * max(1, abs(lim)):
                        good = False
                        break
            if good:
                ok = True
                break
        if not ok:
            return i
    return None


def check_table(table, params, counters):
    from accelforge.mapper.FFM._pareto_df.pareto import makepareto
    viol = []
    t_obj, t_res, a_res = params
    df = to_df(table)
    try:
        res = makepareto(df.copy(), resource_usage_tolerance=t_res, objective_tolerance=t_obj,
                         absolute_resource_usage_tolerance=a_res)
    except Exception as ex:
        return [{"sig": f"exception:{type(ex).__name__}", "witness": {"error": str(ex)[:300], "params": params}}], False
    kept = sorted(int(i) for i in res.index)
    nontrivial = False
    zero = (t_obj == 0 and t_res == 0 and a_res == 0)
    if zero:
        counters["zero_tolerance_tables"] = counters.get("zero_tolerance_tables", 0) + 1
        exp = oracle_zero(table)
        if kept != exp:
            extra = sorted(set(kept) - set(exp))
            miss = sorted(set(exp) - set(kept))
            viol.append({"sig": "zero_tolerance_set_wrong:" + ("kept_dominated" if extra else "") + ("+" if extra and miss else "") + ("dropped_nondominated" if miss else ""),
                         "witness": {"kept": kept[:40], "expected": exp[:40], "n": table["n"],
                                     "columns": [[c["name"], c["dtype"]] for c in table["cols"]]}})
        nvary = sum(1 for c in table["cols"] if c["kind"] in ("obj", "res") and len(set(c["vals"])) > 1)
        nontrivial = 0 < len(exp) < table["n"] and nvary >= 2
    else:
        counters["tolerance_tables"] = counters.get("tolerance_tables", 0) + 1
        bad = check_tolerance(table, kept, t_obj, t_res, a_res)
        if bad is not None:
            viol.append({"sig": "dropped_row_not_covered_within_tolerance",
                         "witness": {"row": bad, "values": {c["name"]: c["vals"][bad] for c in table["cols"] if c["kind"] in ("obj", "res", "fused")},
                                     "params": {"objective_tolerance": t_obj, "resource_usage_tolerance": t_res, "absolute": a_res},
                                     "kept": kept[:40], "n": table["n"]}})
        if not kept and table["n"]:
            viol.append({"sig": "everything_dropped", "witness": {"params": params}})
        nontrivial = 0 < len(kept) < table["n"]
    # constant columns / column order must not matter
    rnd = random.Random(len(kept) + table["n"])
    n = table["n"]
    extras = [{"name": "Total<SEP>const_obj", "kind": "obj", "dtype": "float32", "vals": [3.0] * n},
              {"name": "reservation<SEP>GLB<SEP>7<SEP>left", "kind": "res", "dtype": "float32", "vals": [0.5] * n},
              {"name": "fused_loop<SEP>const_tile", "kind": "fused", "dtype": "int64", "vals": [4] * n},
              {"name": "tensor<SEP>Tconst", "kind": "other_obj", "dtype": "object", "vals": ["z"] * n}]
    chosen = [e for e in extras if rnd.random() < 0.6] or extras[:1]
    order = list(range(len(table["cols"]) + len(chosen)))
    rnd.shuffle(order)
    try:
        res2 = makepareto(to_df(table, chosen, order), resource_usage_tolerance=t_res, objective_tolerance=t_obj,
                          absolute_resource_usage_tolerance=a_res)
        counters["constant_column_variants"] = counters.get("constant_column_variants", 0) + 1
        kept2 = sorted(int(i) for i in res2.index)
        if kept2 != kept:
            viol.append({"sig": "constant_column_or_order_changes_result",
                         "witness": {"added": [e["name"] for e in chosen], "order": order, "kept_before": kept[:40], "kept_after": kept2[:40],
                                     "params": params}})
    except Exception as ex:
        viol.append({"sig": f"exception_with_constant_columns:{type(ex).__name__}", "witness": {"error": str(ex)[:300]}})
    return viol, nontrivial


def run_case(case):
    counters, viol, nontriv, sample = {}, [], [], None
    if "table" in case:
        v, _ = check_table(case["table"], case["params"], counters)
        return {"status": "violation" if v else "ok", "violations": v, "counters": counters, "nontrivial": ["explicit"]}
    rnd = random.Random(case["seed"])
    per_sig = {}
    for _ in range(case["count"]):
        table = gen_table(rnd)
        if rnd.random() < 0.4:
            params = [0, 0, 0]
        else:
            params = [rnd.choice(TOLS), rnd.choice(TOLS), rnd.choice(ABS)]
        v, nt = check_table(table, params, counters)
        for x in v:
            per_sig[x["sig"]] = per_sig.get(x["sig"], 0) + 1
            if per_sig[x["sig"]] <= 2:
                x["case"] = {"class": "tables", "table": table, "params": params}
                viol.append(x)
        if nt:
            nontriv.append(hashlib.sha1(json.dumps([table, params], default=str).encode()).hexdigest()[:12])
            if sample is None and table["n"] <= 5:
                sample = {"columns": {c["name"]: c["vals"] for c in table["cols"]}, "params": params}
    return {"status": "violation" if viol else "ok", "violations": viol, "nontrivial": nontriv,
            "counters": counters, "sample": sample}
