"""C05 - model action counts, energy and latency match explicit LoopTree execution."""
import json
import random

from ..gen import mappings as gm
from ..gen import specs as gs

ID = "C05"
LEVEL = "exploration"
CHUNK = 2
CASE_TIMEOUT = 1200
REQUIRED_COUNTERS = ["mappings_compared", "count_triples_compared"]
RULE = ("random single-Einsum concrete mappings (matmul / matvec / elementwise, 2-4 rank variables, bounds in {2,3,4,6}, "
        "stride-1 dense projections, two- and three-level hierarchies, storage nodes at arbitrary depths incl. below loops, "
        "several tensors per node, tensors skipping a level, arbitrary loop orders, perfectly factorising tile-shape "
        "chains) with random per-action energies / throughputs, leak power, bits_per_value overrides per memory, "
        "bits_per_action and values_per_action at action and component level, per-component skip_initial_output_write "
        "(uniform and mixed classes), actions_scale, n_instances; the executor in vf/ref/looptree_exec.py runs the nest "
        "and every per-(component, tensor, action) count, the compute count, energy and latency are compared with "
        "evaluate_mapping. non-trivial = the mapping has a storage node below a loop and >= 3 loops; distinct = (spec "
        "attributes, tree)")
ASSUMPTIONS = ["counts compared exactly (integers after the values->actions conversion, 1e-9 relative)",
               "energy / latency to 1e-9 relative (the model is float64/symengine here)"]
TECHNIQUE = "runtime monitoring: executable reference model (explicit loop-nest execution on coordinate sets) vs evaluate_mapping on seeded random mappings"

CLASSES = ["plain", "mixed_skip", "bits", "scale_leak"]


def gen_cases(tier, seed):
    rnd = random.Random(f"C05-{seed}")
    n, per = (32, 25) if tier == "quick" else (256, 80)
    return [{"class": CLASSES[i % 4], "seed": rnd.randrange(2**31), "count": per} for i in range(n)]


def gen_item(rnd, cls):
    d = gs.gen_spec(rnd, rnd.choice(["mm1", "mm1", "mv1", "ew1"]), levels=rnd.choice([2, 3]), size_class="inf",
                    costs="random")
    for m in d["arch"]["mems"]:
        m["keep"], m["may_keep"] = "Nothing", "All"
    d["arch"]["mems"][0]["keep"] = "All"
    for rv in d["workload"]["ranks"]:
        d["workload"]["ranks"][rv] = rnd.choice([2, 3, 4, 6])
    tensors = [t["name"] for t in d["workload"]["einsums"][0]["tensors"]]
    if cls == "mixed_skip":
        for m in d["arch"]["mems"]:
            m["skip"] = rnd.random() < 0.5
        d["arch"]["mac"]["skip"] = rnd.random() < 0.5
    elif cls == "plain" and rnd.random() < 0.3:
        flag = rnd.random() < 0.5
        for m in d["arch"]["mems"]:
            m["skip"] = flag
        d["arch"]["mac"]["skip"] = flag
    if cls == "bits":
        for m in d["arch"]["mems"]:
            if rnd.random() < 0.5:
                m["bits_per_value"] = {t: rnd.choice([2, 4, 16]) for t in tensors if rnd.random() < 0.5} or None
            if rnd.random() < 0.4:
                m["bits_per_action"] = rnd.choice([2, 8, 64])
            if rnd.random() < 0.4:
                m[rnd.choice(["read_bpa", "write_bpa"])] = rnd.choice([4, 16, 32])
            if rnd.random() < 0.3:
                m["values_per_action"] = {rnd.choice(tensors): rnd.choice([1, 2, 4])}
            if rnd.random() < 0.3:
                m[rnd.choice(["read_vpa", "write_vpa"])] = {rnd.choice(tensors): rnd.choice([1, 2, 8])}
    if cls == "scale_leak":
        for m in d["arch"]["mems"]:
            m["leak"] = rnd.choice([0, 0.25, 2])
            if rnd.random() < 0.4:
                m["actions_scale"] = rnd.choice([2, 0.5, 3])
            if rnd.random() < 0.3:
                m["total_latency"] = "max(a.n_calls / a.throughput for a in actions)"
        d["arch"]["mac"]["leak"] = rnd.choice([0, 0.5])
        if rnd.random() < 0.5:
            d["workload"]["einsums"][0]["n_instances"] = rnd.choice([2, 3])
        if rnd.random() < 0.3:
            d["workload"]["n_instances"] = 2
    tree = gm.gen_mapping(rnd, d)
    return {"desc": d, "tree": tree}


def expected(d, tree):
    from ..ref.looptree_exec import Executor
    w, a = d["workload"], d["arch"]
    arch = {m["name"]: {"kind": "Memory", "skip": m.get("skip", True)} for m in a["mems"]}
    arch[a["mac"]["name"]] = {"kind": "Compute", "skip": a["mac"].get("skip", True)}
    ex = Executor(w, arch).run(tree)
    e = w["einsums"][0]
    ninst = e.get("n_instances", 1) * w.get("n_instances", 1)
    mem = {m["name"]: m for m in a["mems"]}
    acts = {}
    for (comp, tensor, action), vals in ex.counts.items():
        m = mem[comp]
        vpa = None
        av = m.get(action + "_vpa") or {}
        if tensor in av:
            vpa = av[tensor]
        elif tensor in (m.get("values_per_action") or {}):
            vpa = m["values_per_action"][tensor]
        else:
            bpa = m.get(action + "_bpa")
            if bpa is None:
                bpa = m.get("bits_per_action")
            if bpa is None:
                bpa = 1
            bpv = (m.get("bits_per_value") or {}).get(tensor, w["bits"])
            vpa = bpa / bpv
        acts[(comp, tensor, action)] = vals / vpa * m.get("actions_scale", 1) * ninst
    ops = ex.computes[e["name"]] * ninst
    # latency: per component, total_latency over its actions (n_calls aggregated over tensors)
    lat = {}
    for m in a["mems"]:
        per_action = {}
        for act in ("read", "write"):
            n = sum(v for (c, t, x), v in acts.items() if c == m["name"] and x == act)
            tp = m[act + "_tp"]
            per_action[act] = 0.0 if tp == "inf" else n / tp
        lat[m["name"]] = max(per_action.values()) if "max(" in str(m.get("total_latency", "")) else sum(per_action.values())
    lat[a["mac"]["name"]] = ops / a["mac"]["tp"]
    latency = max(lat.values())
    energy = sum(v * mem[c][x + "_e"] for (c, t, x), v in acts.items()) + ops * a["mac"]["energy"]
    energy += latency * (sum(m.get("leak", 0) for m in a["mems"]) + a["mac"].get("leak", 0))
    return acts, ops, energy, latency, lat


def check_item(item, counters):
    from .. import harness as H
    d, tree = item["desc"], item["tree"]
    H.serial()
    try:
        ev = H.eval_tree(d, tree)
    except Exception as ex:
        counters["model_rejects_generated_mapping"] = counters.get("model_rejects_generated_mapping", 0) + 1
        counters["model_rejects:" + type(ex).__name__] = counters.get("model_rejects:" + type(ex).__name__, 0) + 1
        return [], False
    acts, ops, energy, latency, lat = expected(d, tree)
    model = {}
    mops = None
    for (comp, tensor, action), v in ev.actions(per_component=True, per_tensor=True).items():
        if action in ("read", "write"):
            model[(comp, tensor, action)] = float(v)
        elif action == "compute":
            mops = float(v)
    viol = []
    counters["mappings_compared"] = counters.get("mappings_compared", 0) + 1
    keys = set(acts) | set(model)
    counters["count_triples_compared"] = counters.get("count_triples_compared", 0) + len(keys)
    diff = {k: (model.get(k, 0.0), acts.get(k, 0.0)) for k in keys
            if abs(model.get(k, 0.0) - acts.get(k, 0.0)) > 1e-9 * max(1.0, abs(acts.get(k, 0.0)))}
    feats = []
    if any(m.get("skip") is not None for m in d["arch"]["mems"]):
        feats.append("skip_flags")
    if any(m.get(k) for m in d["arch"]["mems"] for k in ("bits_per_value", "bits_per_action", "values_per_action", "read_bpa", "write_bpa", "read_vpa", "write_vpa")):
        feats.append("bits")
    if any(m.get("actions_scale") for m in d["arch"]["mems"]) or d["workload"]["einsums"][0].get("n_instances", 1) != 1 or d["workload"].get("n_instances", 1) != 1:
        feats.append("scale")
    feat = "+".join(feats) or "plain"
    if diff:
        k0 = sorted(diff, key=str)[0]
        out = [t["name"] for t in d["workload"]["einsums"][0]["tensors"] if t["out"]][0]
        role = "output" if k0[1] == out else "input"
        viol.append({"sig": f"action_count_differs:{role}:{k0[2]}:{feat}",
                     "witness": {"differences(model, executed)": {str(k): v for k, v in list(diff.items())[:8]}, "tree": tree,
                                 "ranks": d["workload"]["ranks"], "spec": gs.summary(d)}})
    if mops is not None and abs(mops - ops) > 1e-9 * max(1, ops):
        viol.append({"sig": "compute_count_differs", "witness": {"model": mops, "executed": ops, "tree": tree}})
    if not diff:
        me, ml = float(ev.energy()), float(ev.latency())
        if abs(ml - latency) > 1e-9 * max(1.0, abs(latency)):
            viol.append({"sig": f"latency_differs:{feat}", "witness": {"model": ml, "executed": latency, "per_component": lat, "tree": tree, "spec": gs.summary(d)}})
        elif abs(me - energy) > 1e-9 * max(1.0, abs(energy)):
            viol.append({"sig": f"energy_differs:{feat}", "witness": {"model": me, "executed": energy, "tree": tree, "spec": gs.summary(d)}})
    nloops = sum(1 for n in tree if n["t"] == "T")
    below = any(n["t"] == "S" and any(x["t"] == "T" for x in tree[:i]) for i, n in enumerate(tree))
    return viol, (nloops >= 3 and below)


def run_case(case):
    counters, viol, nontriv, sample = {}, [], [], None
    if "item" in case:
        v, _ = check_item(case["item"], counters)
        return {"status": "violation" if v else "ok", "violations": v, "counters": counters, "nontrivial": ["explicit"]}
    rnd = random.Random(case["seed"])
    per_sig = {}
    for _ in range(case["count"]):
        item = gen_item(rnd, case["class"])
        v, nt = check_item(item, counters)
        for x in v:
            per_sig[x["sig"]] = per_sig.get(x["sig"], 0) + 1
            if per_sig[x["sig"]] <= 2:
                x["case"] = {"class": case["class"], "item": item}
                viol.append(x)
        if nt:
            nontriv.append(json.dumps([gs.summary(item["desc"]), item["tree"]], sort_keys=True, default=str))
            if sample is None:
                sample = {"ranks": item["desc"]["workload"]["ranks"], "tree": item["tree"]}
    return {"status": "violation" if viol else "ok", "violations": viol, "nontrivial": nontriv,
            "counters": counters, "sample": sample}
