"""C19 - optimal costs scale with the architecture's cost parameters."""
import copy
import json
import math
import random

from ..gen import specs as gs

ID = "C19"
LEVEL = "exploration"
CHUNK = 2
CASE_TIMEOUT = 900
REQUIRED_COUNTERS = ["energy_scaling_pairs", "throughput_scaling_pairs", "n_instances_pairs"]
RULE = ("metamorphic pairs on specs of the small-spec family (incl. non-zero leak power): every per-action energy and "
        "leak power x k -> optimal energy x k; every finite throughput x k -> optimal latency / k; n_instances x k on the "
        "workload (any spec) or on the Einsum (single-Einsum specs) -> optimal energy and latency x k and unchanged "
        "validity. k from the realistic class {2^-30, 2^-3, 2, 2^10, 2^20, 2^40, 3, 0.1, 7.3} (2^40 ~ J vs pJ) and the "
        "extreme class {2^90, 2^110}; powers of two must scale exactly in float32 (pure exponent shift), others to 1e-5. "
        "non-trivial = the optimum's tree has >= 2 loops ... counted as distinct (spec, relation, k)")
ASSUMPTIONS = ["only the single-objective optimum and validity are judged (front shape under scaling belongs to C02)",
               "n_instances factors are small integers"]
TECHNIQUE = "runtime monitoring: metamorphic scaling relations over recorded mapper optima"

REALISTIC = [2.0 ** -30, 2.0 ** -3, 2.0, 2.0 ** 10, 2.0 ** 20, 2.0 ** 40, 3.0, 0.1, 7.3]
EXTREME = [2.0 ** 90, 2.0 ** 110]


def gen_cases(tier, seed):
    rnd = random.Random(f"C19-{seed}")
    n = 36 if tier == "quick" else 280
    cases = []
    for i in range(n):
        d = gs.gen_spec(rnd, rnd.choice(["mm1", "mm1", "mv1", "chain2", "fanin2", "mvchain2"]), levels=rnd.choice([2, 2, 3]))
        if rnd.random() < 0.5:
            for m in d["arch"]["mems"]:
                m["leak"] = rnd.choice([0, 0.01, 0.5])
            d["arch"]["mac"]["leak"] = rnd.choice([0, 0.01])
        rel = ["energy", "throughput", "n_instances"][i % 3]
        if rel == "n_instances":
            k = rnd.choice([2, 3, 5])
        else:
            k = rnd.choice(EXTREME) if rnd.random() < 0.15 else rnd.choice(REALISTIC)
        cases.append({"class": rel + ("/extreme" if k in EXTREME else ""), "desc": d, "relation": rel, "k": k,
                      "where": rnd.choice(["workload", "einsum"])})
    return cases


def scaled(d, rel, k, where):
    d2 = copy.deepcopy(d)
    if rel == "energy":
        for m in d2["arch"]["mems"]:
            m["read_e"] *= k
            m["write_e"] *= k
            m["leak"] = m.get("leak", 0) * k
        d2["arch"]["mac"]["energy"] *= k
        d2["arch"]["mac"]["leak"] = d2["arch"]["mac"].get("leak", 0) * k
    elif rel == "throughput":
        for m in d2["arch"]["mems"]:
            for key in ("read_tp", "write_tp"):
                if m[key] != "inf":
                    m[key] = m[key] * k
        d2["arch"]["mac"]["tp"] *= k
    else:
        if where == "workload" or len(d2["workload"]["einsums"]) > 1:
            d2["workload"]["n_instances"] = d2["workload"].get("n_instances", 1) * k
        else:
            d2["workload"]["einsums"][0]["n_instances"] = d2["workload"]["einsums"][0].get("n_instances", 1) * k
    return d2


def is_pow2(k):
    m, _ = math.frexp(k)
    return m == 0.5


def run_case(case):
    from .. import harness as H
    d, rel, k = case["desc"], case["relation"], case["k"]
    d2 = scaled(d, rel, k, case.get("where", "workload"))
    counters, viol = {}, []
    metric = {"energy": "ENERGY", "throughput": "LATENCY", "n_instances": "ENERGY"}[rel]

    def opt(desc, m):
        try:
            rows = H.result_rows(H.run_mapper(desc, m), with_tree=False)
            return min(H.objective(r, m) for r in rows), rows
        except H.NoMapping:
            return None, None
    a, _ = opt(d, metric)
    b, _ = opt(d2, metric)
    counters[{"energy": "energy_scaling_pairs", "throughput": "throughput_scaling_pairs", "n_instances": "n_instances_pairs"}[rel]] = 1
    if (a is None) != (b is None):
        viol.append({"sig": f"validity_changes_under_{rel}_scaling", "witness": {"k": k, "original_maps": a is not None, "scaled_maps": b is not None}})
    elif a is not None:
        exp = a * k if rel != "throughput" else a / k
        tol = 0.0 if (is_pow2(k) and rel != "n_instances" and 1e-37 < abs(exp) < 3e38) else 1e-5
        ok = (b == exp) if tol == 0.0 else H.close(b, exp, rel=tol, abs_tol=0)
        if not ok and tol == 0.0 and H.close(b, exp, rel=2.0 ** -20, abs_tol=0):
            # exact power-of-two scaling failed only in the last bits: different mapping with (almost) equal cost
            ok = True
            counters["pow2_last_bit_differences(recorded)"] = 1
        if not ok:
            extreme = k in EXTREME
            if extreme and (b == 0 or math.isinf(b) or math.isnan(b)):
                sig = f"{rel}_optimum_zero_or_nonfinite_at_extreme_scale"
            else:
                sig = f"{rel}_optimum_does_not_scale" + (":extreme_k" if extreme else "")
            viol.append({"sig": sig, "witness": {"k": k, "original_optimum": a, "scaled_optimum": b, "expected": exp, "metric": metric}})
        if rel == "n_instances":
            la, _ = opt(d, "LATENCY")
            lb, _ = opt(d2, "LATENCY")
            if la is not None and lb is not None and not H.close(lb, la * k, rel=1e-5):
                viol.append({"sig": "n_instances_latency_does_not_scale", "witness": {"k": k, "original": la, "scaled": lb}})
    nt = [json.dumps([d["class"], d["workload"]["ranks"], rel, k])] if a is not None else []
    return {"status": "violation" if viol else "ok", "violations": viol, "nontrivial": nt, "counters": counters,
            "sample": {"spec": gs.summary(d), "relation": rel, "k": k, "original_optimum": a, "scaled_optimum": b}}
