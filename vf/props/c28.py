"""C28 - result breakdowns aggregate consistently to the reported totals."""
import copy
import inspect
import itertools
import json
import random

from ..gen import specs as gs

ID = "C28"
LEVEL = "exploration"
CHUNK = 2
CASE_TIMEOUT = 600
REQUIRED_COUNTERS = ["energy_flag_combinations", "action_flag_combinations", "latency_checks", "usage_checks"]
RULE = ("Mappings objects returned for specs of the small-spec family (1-3 Einsums; Einsums named like their output tensor "
        "as the concise notation does; n_instances > 1; leak power on 60% of the architectures; ENERGY|LATENCY(|RESOURCE_USAGE) so that results have several "
        "rows), with eval_in_detail True and False; columns are parsed by an independent splitter and every energy() / "
        "actions() / latency() / resource_usage() answer for every per_* flag combination is recomputed from the columns: "
        "total == Total column == sum of every breakdown, each breakdown key == own grouping. non-trivial = result has "
        ">= 2 Einsums or >= 2 rows; distinct = (spec class, ranks, eval_in_detail, n_rows)")
ASSUMPTIONS = ["float tolerance 2^-18 relative on sums"]
TECHNIQUE = "runtime monitoring: independent column parser + arithmetic oracle over every per_* flag combination of the result accessors"


def gen_cases(tier, seed):
    rnd = random.Random(f"C28-{seed}")
    n = 32 if tier == "quick" else 240
    cases = []
    for i in range(n):
        d = gs.gen_spec(rnd, rnd.choice(["mm1", "mv1", "chain2", "chain2", "fanin2", "mvchain2"] + (["chain3"] if tier != "quick" else [])),
                        levels=rnd.choice([2, 2, 3]), costs=rnd.choice(["tradeoff", "random"]))
        variant = rnd.choice(["plain", "named_like_output", "n_instances", "n_instances"])
        if rnd.random() < 0.6:
            # leak power: a part of the totals that does not come from action counts
            for m in d["arch"]["mems"]:
                m["leak"] = rnd.choice([0, 0.01, 0.5, 2])
            d["arch"]["mac"]["leak"] = rnd.choice([0, 0.01, 0.5])
        if variant == "named_like_output":
            for e in d["workload"]["einsums"]:
                e["name"] = [t["name"] for t in e["tensors"] if t["out"]][0]
        if variant == "n_instances":
            d["workload"]["einsums"][0]["n_instances"] = rnd.choice([2, 3])
            d["workload"]["n_instances"] = rnd.choice([1, 2])
        cases.append({"class": variant + ("/detail" if i % 4 else "/joined_only"), "desc": d,
                      "metrics": rnd.choice(["ENERGY|LATENCY", "ENERGY|LATENCY|RESOURCE_USAGE", "ENERGY"]),
                      "detail": bool(i % 4)})
    return cases


def as_list(v, n):
    if isinstance(v, list):
        return [float(x) for x in v]
    return [float(v)] * 1 if n == 1 else [float(v)] * n


def run_case(case):
    import numpy as np
    from .. import harness as H
    d = case["desc"]
    counters, viol = {}, []

    def bump(k, n=1):
        counters[k] = counters.get(k, 0) + n
    try:
        res = H.run_mapper(d, case["metrics"], eval_in_detail=case["detail"])
    except H.NoMapping:
        return {"status": "ok", "counters": {"no_valid_mapping": 1}}
    data = res.data
    n = len(data)
    einsums = [e["name"] for e in d["workload"]["einsums"]]
    cols = {c: np.array([float(x) for x in data[c]]) for c in data.columns
            if c.split(H.SEP)[0] in einsums + ["Total", "reservation"] and "mapping" not in c and "stride" not in c
            and not c.endswith("compressed_index")}
    # independent parse
    E, A, L = {}, {}, {}
    for c, v in cols.items():
        p = c.split(H.SEP)
        if len(p) >= 2 and p[0] in einsums:
            if p[1] == "energy":
                if len(p) == 5:
                    E[(p[0], p[2], p[3], p[4])] = v
                elif len(p) == 4:
                    E[(p[0], p[2], None, p[3])] = v
            elif p[1] == "action" and len(p) == 5:
                A[(p[0], p[2], p[3], p[4])] = v
            elif p[1] == "latency" and len(p) == 3:
                L[(p[0], p[2])] = v

    def close(a, b):
        return all(H.close(x, y, rel=2.0 ** -18, abs_tol=1e-6) for x, y in zip(a, b))

    def vec(x):
        return [float(t) for t in x] if isinstance(x, (list, np.ndarray)) else [float(x)] * n

    sig_suffix = "" if case["detail"] else ":without_breakdown_columns"
    # ------------------------------------------------------------ energy
    try:
        tot = vec(res.energy())
        if "Total<SEP>energy" in cols and not close(tot, cols["Total<SEP>energy"]):
            viol.append({"sig": "energy_total_differs_from_Total_column" + sig_suffix,
                         "witness": {"energy()": tot[:5], "Total<SEP>energy": list(cols["Total<SEP>energy"][:5])}})
        if E:
            mine = sum(E.values())
            if not close(tot, mine):
                viol.append({"sig": "energy_total_differs_from_sum_of_columns", "witness": {"energy()": tot[:5], "sum": list(mine[:5])}})
            for flags in itertools.product([False, True], repeat=4):
                if not any(flags):
                    continue
                bump("energy_flag_combinations")
                got = res.energy(per_einsum=flags[0], per_component=flags[1], per_tensor=flags[2], per_action=flags[3])
                keep = [i for i, f in enumerate(flags) if f]
                exp = {}
                for k, v in E.items():
                    kk = tuple(k[i] for i in keep)
                    kk = kk[0] if len(kk) == 1 else kk
                    exp[kk] = exp.get(kk, 0) + v
                gsum = sum(np.array(vec(v)) for v in got.values())
                if not close(gsum, tot):
                    viol.append({"sig": "energy_breakdown_sum_differs_from_total", "witness": {"flags": flags, "sum": list(gsum[:5]), "total": tot[:5]}})
                    break
                norm = {(k if not isinstance(k, tuple) else tuple(None if x == "None" and i == 99 else x for i, x in enumerate(k))): v for k, v in got.items()}
                for k, v in exp.items():
                    g = norm.get(k)
                    if g is None or not close(vec(g), v):
                        if float(np.abs(v).sum()) == 0 and g is None:
                            continue
                        viol.append({"sig": "energy_breakdown_key_wrong", "witness": {"flags": flags, "key": str(k), "got": None if g is None else vec(g)[:5], "expected": list(v[:5])}})
                        break
    except Exception as ex:
        viol.append({"sig": f"energy_accessor_raises:{type(ex).__name__}" + sig_suffix, "witness": {"error": str(ex)[:300]}})
    # ------------------------------------------------------------ actions
    if A:
        try:
            base = res.actions(per_einsum=False, per_component=False, per_tensor=False)
            exp_base = {}
            for k, v in A.items():
                exp_base[k[3]] = exp_base.get(k[3], 0) + v
            for act, v in exp_base.items():
                if act not in base or not close(vec(base[act]), v):
                    viol.append({"sig": "actions_total_wrong", "witness": {"action": act, "got": None if act not in base else vec(base[act])[:5], "expected": list(v[:5])}})
            for flags in itertools.product([False, True], repeat=3):
                bump("action_flag_combinations")
                got = res.actions(per_einsum=flags[0], per_component=flags[1], per_tensor=flags[2])
                keep = [i for i, f in enumerate(flags) if f] + [3]
                exp = {}
                for k, v in A.items():
                    kk = tuple(k[i] for i in keep)
                    kk = kk[0] if len(kk) == 1 else kk
                    exp[kk] = exp.get(kk, 0) + v
                for k, v in exp.items():
                    g = got.get(k)
                    if g is None or not close(vec(g), v):
                        viol.append({"sig": "actions_breakdown_key_wrong", "witness": {"flags": flags, "key": str(k), "got": None if g is None else vec(g)[:5], "expected": list(v[:5])}})
                        break
        except Exception as ex:
            viol.append({"sig": f"actions_accessor_raises:{type(ex).__name__}", "witness": {"error": str(ex)[:300]}})
    # ------------------------------------------------------------ latency
    try:
        lat = res.latency()
        bump("latency_checks")
        if lat is None:
            if "Total<SEP>latency" in cols:
                viol.append({"sig": "latency_total_differs_from_Total_column" + sig_suffix, "witness": {"latency()": None, "Total<SEP>latency": list(cols["Total<SEP>latency"][:5])}})
        else:
            lat = vec(lat)
            if "Total<SEP>latency" in cols and not close(lat, cols["Total<SEP>latency"]):
                viol.append({"sig": "latency_total_differs_from_Total_column" + sig_suffix, "witness": {"latency()": lat[:5], "Total<SEP>latency": list(cols["Total<SEP>latency"][:5])}})
            if L:
                per_e = {}
                for (e, c), v in L.items():
                    per_e[e] = v if e not in per_e else np.maximum(per_e[e], v)
                mine = sum(per_e.values())
                if not close(lat, mine):
                    viol.append({"sig": "latency_not_sum_of_max_component", "witness": {"latency()": lat[:5], "sum_over_einsums_of_max_component": list(mine[:5])}})
                pe = res.latency(per_einsum=True)
                for e, v in per_e.items():
                    if e not in pe or not close(vec(pe[e]), v):
                        viol.append({"sig": "latency_per_einsum_wrong", "witness": {"einsum": e, "got": None if e not in pe else vec(pe[e])[:5], "expected": list(v[:5])}})
                pec = res.latency(per_einsum=True, per_component=True)
                for k, v in L.items():
                    if k not in pec or not close(vec(pec[k]), v):
                        viol.append({"sig": "latency_per_einsum_component_wrong", "witness": {"key": str(k)}})
                        break
    except Exception as ex:
        viol.append({"sig": f"latency_accessor_raises:{type(ex).__name__}" + sig_suffix, "witness": {"error": str(ex)[:300]}})
    # ------------------------------------------------------------ usage
    rcols = {c: v for c, v in cols.items() if c.startswith("reservation" + H.SEP)}
    try:
        ru = res.resource_usage()
        bump("usage_checks")
        exp = {}
        for c, v in rcols.items():
            m = c.split(H.SEP)[1]
            exp[m] = v if m not in exp else np.maximum(exp[m], v)
        for m, v in exp.items():
            if m not in ru or not close(vec(ru[m]), v):
                viol.append({"sig": "resource_usage_not_max_reservation", "witness": {"memory": m, "got": None if m not in ru else vec(ru[m])[:5], "expected": list(v[:5])}})
        if set(ru) - set(exp):
            viol.append({"sig": "resource_usage_reports_unknown_memory", "witness": {"extra": sorted(set(ru) - set(exp))}})
    except Exception as ex:
        if rcols:
            viol.append({"sig": f"resource_usage_accessor_raises:{type(ex).__name__}", "witness": {"error": str(ex)[:300]}})
        else:
            bump("usage_accessor_raises_without_reservation_columns(recorded)")
    nt = [json.dumps([d["class"], d["workload"]["ranks"], case["class"], n])] if (len(einsums) >= 2 or n >= 2) else []
    seen, keep = set(), []
    for v in viol:
        if v["sig"] not in seen:
            seen.add(v["sig"])
            keep.append(v)
    return {"status": "violation" if keep else "ok", "violations": keep, "nontrivial": nt, "counters": counters,
            "sample": {"spec": gs.summary(d), "rows": n, "einsums": einsums, "energy()": vec(res.energy())[:4] if E else None}}
