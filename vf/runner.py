"""Check driver: generates cases, fans them out to fresh worker processes, takes the
three-valued verdict offline from what the monitors recorded, writes evidence.

exit 0: property held on everything explored (or only listed KNOWN-FINDINGs re-observed,
        or inconclusive -- said loudly on stdout and in the evidence)
exit 1: at least one violation whose mechanism signature is not in KNOWN_FINDINGS.jsonl;
        prints `VIOLATION property=<id> replay=<path>` for each.
"""
import argparse
import concurrent.futures as cf
import hashlib
import json
import os
import subprocess
import sys
import tempfile
import time

from . import ROOT, WORK, known, setup_env
from .worker import load_prop

EVID = os.environ.get("VERIF_EVIDENCE_DIR") or os.path.join(ROOT, "evidence")   # override: development runs against a scratch tree
REPLAYS = os.path.join(ROOT, "replays")


def _h(x):
    return hashlib.sha1(json.dumps(x, sort_keys=True, default=str).encode()).hexdigest()[:12]


def run_chunk(prop_id, cases, timeout):
    os.makedirs(WORK, exist_ok=True)
    fd, infile = tempfile.mkstemp(prefix=f"{prop_id}-in-", suffix=".json", dir=WORK)
    os.close(fd)
    outfile = infile.replace("-in-", "-out-") + "l"
    with open(infile, "w") as f:
        json.dump(cases, f)
    env = dict(os.environ)
    env["PYTHONPATH"] = ROOT + (":" + env["PYTHONPATH"] if env.get("PYTHONPATH") else "")
    err = ""
    try:
        p = subprocess.run(
            [sys.executable, "-m", "vf.worker", prop_id, infile, outfile],
            env=env, timeout=timeout, capture_output=True, text=True, cwd=ROOT,
        )
        err = (p.stderr or "")[-1500:] if p.returncode != 0 else ""
        reason = f"worker exited rc={p.returncode}"
    except subprocess.TimeoutExpired:
        reason = f"worker chunk watchdog {timeout}s"
    results = {}
    if os.path.exists(outfile):
        with open(outfile) as f:
            for line in f:
                try:
                    r = json.loads(line)
                    results[r["case_id"]] = r
                except Exception:
                    pass
    out = []
    for c in cases:
        r = results.get(c["id"])
        if r is None:
            r = {"status": "inconclusive", "reason": reason, "stderr": err,
                 "case_id": c["id"], "class": c.get("class", "default")}
        out.append(r)
    for p_ in (infile, outfile):
        try:
            os.remove(p_)
        except OSError:
            pass
    return out


def main(argv=None):
    ap = argparse.ArgumentParser()
    ap.add_argument("prop")
    ap.add_argument("--tier", default=os.environ.get("VERIF_TIER", "quick"))
    ap.add_argument("--seed", type=int, default=int(os.environ.get("VERIF_SEED", "0")))
    ap.add_argument("--replay")
    ap.add_argument("--jobs", type=int, default=int(os.environ.get("VERIF_JOBS", "16")))
    ap.add_argument("--limit", type=int, default=0, help="debug: only first N cases")
    args = ap.parse_args(argv)
    prop_id = args.prop.upper()
    tier = args.tier if args.tier in ("quick", "thorough") else "quick"
    setup_env()
    os.makedirs(EVID, exist_ok=True)
    os.makedirs(REPLAYS, exist_ok=True)
    mod = load_prop(prop_id)
    t0 = time.time()

    if args.replay:
        with open(args.replay) as f:
            rp = json.load(f)
        cases = [rp["case"]]
        cases[0]["id"] = 0
    else:
        cases = mod.gen_cases(tier, args.seed)
        if args.limit:
            cases = cases[: args.limit]
        for i, c in enumerate(cases):
            c["id"] = i
    case_by_id = {c["id"]: c for c in cases}

    chunk = max(1, getattr(mod, "CHUNK", 8))
    per_case_to = getattr(mod, "CASE_TIMEOUT", 120)
    # interleave so that every chunk sees every class
    nchunks = max(1, (len(cases) + chunk - 1) // chunk)
    chunks = [cases[i::nchunks] for i in range(nchunks)]
    results = []
    jobs = max(1, min(args.jobs, getattr(mod, "MAX_JOBS", 16)))
    with cf.ThreadPoolExecutor(max_workers=jobs) as ex:
        futs = [
            ex.submit(run_chunk, prop_id, ch,
                      sum(c.get("timeout", per_case_to) for c in ch) + 300)
            for ch in chunks if ch
        ]
        for fu in cf.as_completed(futs):
            results.extend(fu.result())
    results.sort(key=lambda r: r["case_id"])

    extra = {}
    if hasattr(mod, "finalize") and not args.replay:
        extra = mod.finalize(cases, results) or {}

    # ---------------------------------------------------------------- verdict
    kn, fixed = known.load(prop_id)
    counters, classes, incon = {}, {}, {}
    nontriv, samples = set(), []
    viol = []  # (sig, witness, case)
    for r in results:
        classes.setdefault(r.get("class", "default"), {"cases": 0, "nontrivial": 0})
        classes[r.get("class", "default")]["cases"] += 1
        for k, v in (r.get("counters") or {}).items():
            counters[k] = counters.get(k, 0) + v
        if r["status"] == "inconclusive":
            key = (r.get("reason") or "?")[:80]
            incon[key] = incon.get(key, 0) + 1
        nt = r.get("nontrivial")
        if nt:
            for k in (nt if isinstance(nt, list) else [nt]):
                if k not in nontriv:
                    classes[r.get("class", "default")]["nontrivial"] += 1
                nontriv.add(k)
        if r.get("sample") is not None and len(samples) < 4:
            samples.append(r["sample"])
        vs = list(r.get("violations") or [])
        if r["status"] == "violation" and not vs:
            vs = [{"sig": r.get("sig", "unclassified"), "witness": r.get("witness")}]
        for v in vs:
            viol.append((v.get("sig", "unclassified"), v.get("witness"),
                         v.get("case") or case_by_id.get(r["case_id"])))
    for v in extra.get("violations", []):
        viol.append((v.get("sig", "unclassified"), v.get("witness"), v.get("case")))
    for k in extra.get("nontrivial", []):
        nontriv.add(k)
    for k, v in (extra.get("counters") or {}).items():
        counters[k] = counters.get(k, 0) + v
    for s in extra.get("samples", []):
        if len(samples) < 6:
            samples.append(s)
    for k, v in (extra.get("inconclusive") or {}).items():
        incon[k] = incon.get(k, 0) + v

    known_seen, unknown = {}, {}
    for sig, wit, case in viol:
        if sig in kn:
            known_seen.setdefault(sig, []).append(wit)
        else:
            unknown.setdefault(sig, []).append((wit, case))

    for sig, wits in sorted(known_seen.items()):
        print(f"KNOWN-FINDING: property={prop_id} sig={sig} seen={len(wits)} {kn[sig].get('what','')}")
    n_unknown = 0
    for sig, lst in sorted(unknown.items()):
        for j, (wit, case) in enumerate(lst[:3]):
            n_unknown += 1
            path = os.path.join(REPLAYS, f"{prop_id}-{sig[:40]}-{_h([wit, case])}.json")
            with open(path, "w") as f:
                json.dump({"property": prop_id, "sig": sig, "witness": wit, "case": case},
                          f, indent=1, default=str)
            note = " (regression of a finding recorded as fixed)" if sig in fixed else ""
            print(f"VIOLATION property={prop_id} replay={path} sig={sig} n={len(lst)}{note}")
            print("  witness: " + json.dumps(wit, default=str)[:600])

    required = getattr(mod, "REQUIRED_COUNTERS", [])
    missing = [k for k in required if counters.get(k, 0) == 0]
    n_incon = sum(incon.values())
    inconclusive_run = (not args.replay) and (
        bool(missing) or len(nontriv) < 2 or n_incon > 0.5 * max(1, len(results)))
    wall = time.time() - t0
    status = "violated" if unknown else ("inconclusive" if inconclusive_run else "held")
    cov = {
        "evaluations": len(results),
        "distinct_nontrivial": len(nontriv),
        "rule": getattr(mod, "RULE", ""),
        "samples": samples or [cases[0] if cases else None],
        "monitor_evaluations": counters,
        "classes": classes,
        "inconclusive": incon,
        "known_findings_seen": {k: len(v) for k, v in known_seen.items()},
        "unlisted_violation_signatures": {k: len(v) for k, v in unknown.items()},
        "verdict": status,
    }
    if getattr(mod, "EXHAUSTIVE", False):
        cov["exhaustive"] = True
    for k, v in (extra.get("coverage") or {}).items():
        cov[k] = v
    ev = {
        "property_id": prop_id, "tier": tier, "seed": args.seed,
        "level": getattr(mod, "LEVEL", "exploration"),
        "coverage": cov,
        "assumptions": getattr(mod, "ASSUMPTIONS", []),
        "wall_s": round(wall, 2),
        "violations": sum(len(v) for v in unknown.values()),
    }
    if not args.replay:
        with open(os.path.join(EVID, f"{prop_id}.json"), "w") as f:
            json.dump(ev, f, indent=1, default=str)
    print(f"{prop_id} tier={tier} seed={args.seed} verdict={status} cases={len(results)} "
          f"nontrivial={len(nontriv)} inconclusive={n_incon} known={sum(len(v) for v in known_seen.values())} "
          f"unlisted={sum(len(v) for v in unknown.values())} wall={wall:.1f}s")
    print("  monitors: " + json.dumps(counters))
    if incon:
        print("  inconclusive reasons: " + json.dumps(incon))
    if inconclusive_run and not unknown:
        print(f"INCONCLUSIVE property={prop_id} missing_monitors={missing} nontrivial={len(nontriv)}")
    if args.replay:
        for r in results:
            print(json.dumps(r, indent=1, default=str)[:4000])
    return 1 if unknown else 0


if __name__ == "__main__":
    sys.exit(main())
