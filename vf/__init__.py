"""Runtime-monitoring framework for accelforge properties (see /verif/DESIGN.md)."""
import os
import sys

ROOT = os.path.dirname(os.path.dirname(os.path.abspath(__file__)))
DEPS = os.path.join(ROOT, ".deps")
WORK = os.path.join(ROOT, ".work")
REPO = os.environ.get("VERIF_REPO", "/repo")
GUARD = "ACCELFORGE_VERIF"

# Third-party helper libraries go *after* site-packages so that they can never shadow a
# package the repository itself depends on (e.g. typing_extensions).
if DEPS not in sys.path:
    sys.path.append(DEPS)


def setup_env():
    """Environment every process that imports accelforge must run in."""
    os.makedirs(WORK, exist_ok=True)
    os.environ.setdefault("NUMBA_CACHE_DIR", os.path.join(WORK, "numba"))
    os.environ.setdefault("PYTHONHASHSEED", "0")
    os.environ[GUARD] = "1"
    os.environ.setdefault("MPLBACKEND", "Agg")
    for v in ("OMP_NUM_THREADS", "OPENBLAS_NUM_THREADS", "MKL_NUM_THREADS", "NUMEXPR_NUM_THREADS"):
        os.environ.setdefault(v, "1")
