"""Runs a chunk of cases of one property in a fresh interpreter.

usage: python -m vf.worker <prop_id> <cases.json> <out.jsonl>
Each case runs under a SIGALRM watchdog; a case that raises unexpectedly or times out
is reported as inconclusive (never as a violation) with the traceback attached.
"""
import importlib
import json
import os
import signal
import sys
import time
import traceback

from . import WORK, setup_env
from .timeouts import ItemTimeout


class CaseTimeout(BaseException):
    pass


def _alarm(signum, frame):
    raise CaseTimeout()


def load_prop(prop_id):
    return importlib.import_module(f"vf.props.{prop_id.lower()}")


def run_one(mod, case, timeout):
    t0 = time.time()
    signal.signal(signal.SIGALRM, _alarm)
    signal.alarm(int(timeout))
    try:
        res = mod.run_case(case)
    except CaseTimeout:
        res = {"status": "inconclusive", "reason": f"watchdog {timeout}s"}
    except ItemTimeout:
        res = {"status": "inconclusive", "reason": "item watchdog"}
    except Exception as e:  # harness-side failure: never a verdict
        if type(e).__name__ == "MapperTimeout":
            res = {"status": "inconclusive", "reason": "mapper watchdog"}
        else:
            res = {
                "status": "inconclusive",
                "reason": f"harness exception {type(e).__name__}: {str(e)[:300]}",
                "traceback": traceback.format_exc()[-3000:],
            }
    finally:
        signal.alarm(0)
    res.setdefault("status", "ok")
    res["wall_s"] = round(time.time() - t0, 3)
    res["case_id"] = case.get("id")
    res.setdefault("class", case.get("class", "default"))
    return res


def main():
    prop_id, infile, outfile = sys.argv[1:4]
    setup_env()
    wd = os.path.join(WORK, f"cwd-{os.getpid()}")
    os.makedirs(wd, exist_ok=True)
    os.chdir(wd)
    mod = load_prop(prop_id)
    with open(infile) as f:
        cases = json.load(f)
    timeout = getattr(mod, "CASE_TIMEOUT", 120)
    with open(outfile, "w") as out:
        if hasattr(mod, "worker_init"):
            mod.worker_init()
        for case in cases:
            res = run_one(mod, case, case.get("timeout", timeout))
            out.write(json.dumps(res, default=str) + "\n")
            out.flush()
    try:
        import shutil

        os.chdir(WORK)
        shutil.rmtree(wd, ignore_errors=True)
    except Exception:
        pass


if __name__ == "__main__":
    main()
