"""KNOWN_FINDINGS.jsonl: findings keyed by mechanism signature (never by seed/hash).

Line format: {"property": "C26", "sig": "own_fanout_not_counted", "status": "known",
              "what": "..."}
status "fixed" lines ({"status": "fixed", "commit": "..."}) are informational and
suppress nothing.  The file is never written at run time.
"""
import json
import os

from . import ROOT

PATH = os.path.join(ROOT, "KNOWN_FINDINGS.jsonl")


def load(prop_id):
    known, fixed = {}, {}
    if not os.path.exists(PATH):
        return known, fixed
    with open(PATH) as f:
        for line in f:
            line = line.strip()
            if not line or line.startswith("#"):
                continue
            rec = json.loads(line)
            if rec.get("property") != prop_id:
                continue
            if rec.get("status", "known") == "fixed":
                fixed[rec["sig"]] = rec
            else:
                known[rec["sig"]] = rec
    return known, fixed
