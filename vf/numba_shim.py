"""Stand-in for `numba` used to build a pure-Python twin of JIT kernels: decorators are
identities, scalar type constructors are numpy's (defined IEEE semantics, no fastmath)."""
import numpy as np


class numba:  # noqa: N801 - mimics the module name used in the kernel source
    int64 = np.int64
    int32 = np.int32
    float64 = np.float64
    float32 = np.float32

    @staticmethod
    def jit(*a, **k):
        if a and callable(a[0]) and not k:
            return a[0]
        return lambda f: f

    njit = jit


def load_twin(module):
    """Execute a module's source with `numba` replaced by the shim; returns the twin module."""
    import inspect
    import types

    src = inspect.getsource(module)
    src = src.replace("import numba\n", "from vf.numba_shim import numba\n", 1)
    twin = types.ModuleType(module.__name__ + "_twin")
    twin.__file__ = module.__file__
    twin.__package__ = module.__package__
    exec(compile(src, module.__file__, "exec"), twin.__dict__)
    return twin
