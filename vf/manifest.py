"""Regenerates MANIFEST.json from the property modules present in vf/props.

usage: /venv/bin/python -m vf.manifest
"""
import glob
import importlib
import json
import os
import subprocess

from . import ROOT

BASELINE_CMD = ("cd /repo && env -u ACCELFORGE_VERIF /venv/bin/python -m pytest -ra -q -p no:cacheprovider "
                "--timeout=900 --continue-on-collection-errors")


def hook_commits():
    p = os.path.join(ROOT, "HOOK_COMMITS")
    if not os.path.exists(p):
        return []
    return [l.split()[0] for l in open(p) if l.strip() and not l.startswith("#")]


def main():
    all_ids = [json.loads(l)["id"] for l in open(os.path.join(ROOT, "properties.jsonl"))]
    checks, claimed = [], set()
    for path in sorted(glob.glob(os.path.join(ROOT, "vf", "props", "c[0-9]*.py"))):
        name = os.path.basename(path)[:-3]
        mod = importlib.import_module(f"vf.props.{name}")
        if getattr(mod, "DISABLED", False):
            continue
        pid = mod.ID
        claimed.add(pid)
        chk = {
            "property_id": pid,
            "quick_cmd": f"./check {pid} --tier quick",
            "thorough_cmd": f"./check {pid} --tier thorough",
            "evidence_file": f"evidence/{pid}.json",
            "replay_cmd_template": f"./check {pid} --replay {{path}}",
            "engine": "vf",
            "level_claimed": {
                "category": getattr(mod, "LEVEL", "exploration"),
                "text": getattr(mod, "LEVEL_TEXT", mod.RULE),
                "design_ref": f"DESIGN.md section 3, {pid}",
            },
            "level_note": getattr(mod, "LEVEL_NOTE", "; ".join(getattr(mod, "ASSUMPTIONS", [])) or "see DESIGN.md"),
            "technique": getattr(mod, "TECHNIQUE", "runtime monitoring: reference-model oracle over executions of the real code"),
        }
        checks.append(chk)
    na_path = os.path.join(ROOT, "NOT_APPLICABLE.json")
    na_reasons = json.load(open(na_path)) if os.path.exists(na_path) else {}
    na = []
    for pid in all_ids:
        if pid not in claimed:
            na.append({"property_id": pid,
                       "reason": na_reasons.get(pid, "check not built yet in this snapshot of /verif (planned, see DESIGN.md section 3); not claimed until it runs silent on the unchanged tree")})
    man = {
        "version": 1,
        "setup_cmd": "./setup.sh",
        "hooks": {
            "guard": "ACCELFORGE_VERIF",
            "enable": "checks export ACCELFORGE_VERIF=1 before importing accelforge from /repo (pure Python, develop-mode install: a fresh interpreter is the rebuild)",
            "baseline_off_cmd": BASELINE_CMD,
            "source_commits": hook_commits(),
            "add_only": True,
        },
        "engines": [{
            "name": "vf", "path": "vf/",
            "serves_properties": sorted(claimed),
            "kind_free_text": "python runtime-monitoring framework: seeded workload generators, wrappers/contracts on the real functions, independent reference models, offline verdict over recorded events",
        }],
        "checks": checks,
        "not_applicable": na,
        "notes": "Known findings: KNOWN_FINDINGS.jsonl (keyed by mechanism signature). Every check: ./check <ID> --tier quick|thorough, env VERIF_SEED honoured.",
    }
    with open(os.path.join(ROOT, "MANIFEST.json"), "w") as f:
        json.dump(man, f, indent=1)
    print(f"MANIFEST.json: {len(checks)} checks, {len(na)} not claimed")


if __name__ == "__main__":
    main()
