"""Tiny YAML emitter for generated specs: dicts may carry a "!tag" key (-> `!Tag` node)."""
import json
import math
import os
import tempfile

import re
_NUMLIKE = re.compile(r"[-+]?(\.?\d[\d_]*)(\.[\d_]*)?([eE][-+]?\d+)?|[-+]?0[xXoObB][0-9a-fA-F_]+|[-+]?\.(inf|Inf|INF|nan|NaN|NAN)|[-+]?(inf|nan)|\d+:\d+(:\d+)*")
_PLAIN = set("abcdefghijklmnopqrstuvwxyzABCDEFGHIJKLMNOPQRSTUVWXYZ0123456789_")


def scalar(v):
    if v is None:
        return "null"
    if isinstance(v, bool):
        return "true" if v else "false"
    if isinstance(v, (int,)):
        return str(v)
    if isinstance(v, float):
        if math.isinf(v):
            return "inf" if v > 0 else "-inf"
        return repr(v)
    s = str(v)
    if s and all(c in _PLAIN for c in s) and not s[0].isdigit() and s.lower() not in (
            "null", "true", "false", "yes", "no", "on", "off", "inf", "nan", "y", "n"):
        return s
    if s == "inf":
        return "inf"
    # accelforge treats quoted YAML strings as literals (never evaluated): expressions must
    # be emitted as plain scalars whenever YAML allows it.
    if s and s == s.strip() and s[0] not in "[]{}&*!|>%@`'\"#,?" and not s.startswith("- ") \
            and ": " not in s and " #" not in s and not s.endswith(":") and "\n" not in s \
            and not _NUMLIKE.fullmatch(s) and not s.startswith(("- ", "? ", ": ")):
        return s
    return json.dumps(s)


def _is_scalar(v):
    return v is None or isinstance(v, (bool, int, float, str))


def emit(obj, ind=0):
    pad = " " * ind
    lines = []
    if isinstance(obj, dict):
        items = [(k, v) for k, v in obj.items() if k != "!tag"]
        if not items:
            return [pad + "{}"]
        for k, v in items:
            key = scalar(k)
            if _is_scalar(v):
                lines.append(f"{pad}{key}: {scalar(v)}")
            elif isinstance(v, dict) and "!tag" in v:
                lines.append(f"{pad}{key}: !{v['!tag']}")
                lines += emit(v, ind + 2)
            elif isinstance(v, (dict, list)) and not v:
                lines.append(f"{pad}{key}: " + ("{}" if isinstance(v, dict) else "[]"))
            else:
                lines.append(f"{pad}{key}:")
                lines += emit(v, ind + (2 if isinstance(v, dict) else 0))
        return lines
    if isinstance(obj, (list, tuple)):
        if not obj:
            return [pad + "[]"]
        for v in obj:
            if _is_scalar(v):
                lines.append(f"{pad}- {scalar(v)}")
            elif isinstance(v, dict):
                tag = v.get("!tag")
                sub = emit(v, ind + 2)
                if tag:
                    lines.append(f"{pad}- !{tag}")
                    lines += sub
                else:
                    lines.append(f"{pad}- " + sub[0].lstrip())
                    lines += sub[1:]
            else:
                sub = emit(v, ind + 2)
                lines.append(f"{pad}- " + sub[0].lstrip())
                lines += sub[1:]
        return lines
    return [pad + scalar(obj)]


def dumps(obj):
    return "\n".join(emit(obj)) + "\n"


def write_tmp(obj, prefix="spec"):
    fd, path = tempfile.mkstemp(prefix=prefix + "-", suffix=".yaml", dir=os.getcwd())
    with os.fdopen(fd, "w") as f:
        f.write(dumps(obj) if not isinstance(obj, str) else obj)
    return path


def load_spec(obj, fixed_path=None, **kw):
    """Spec.from_yaml on a generated description (dict or YAML text).  `fixed_path`: write the YAML there and keep it
    (the Spec records the path it was loaded from, and that record is part of the pmapping cache key - a user who
    re-runs a script loads the same file again)."""
    from accelforge.frontend.spec import Spec

    if fixed_path is not None:
        text = dumps(obj) if not isinstance(obj, str) else obj
        if not os.path.exists(fixed_path) or open(fixed_path).read() != text:
            tmp = fixed_path + f".{os.getpid()}.tmp"
            with open(tmp, "w") as f:
                f.write(text)
            os.replace(tmp, fixed_path)
        return Spec.from_yaml(fixed_path, **kw)
    path = write_tmp(obj)
    try:
        return Spec.from_yaml(path, **kw)
    finally:
        try:
            os.remove(path)
        except OSError:
            pass
