"""Random concrete single-Einsum mappings (plain trees) for a spec description."""
import math


def factor_chains(n, rnd, max_len=3):
    """Random chain of tile shapes for a rank variable of bound n: strictly decreasing divisors ending in 1."""
    chain = []
    cur = n
    while cur > 1 and len(chain) < max_len - 1:
        divs = [d for d in range(1, cur) if cur % d == 0]
        d = rnd.choice(divs)
        if rnd.random() < 0.35:
            break
        if d == 1:
            break
        chain.append(d)
        cur = d
    if n > 1:
        chain.append(1)
    return chain            # e.g. n=12 -> [6, 2, 1] : loops with tile shapes 6, 2, 1


def gen_mapping(rnd, desc, einsum=None, holders=None):
    w, a = desc["workload"], desc["arch"]
    e = w["einsums"][0] if einsum is None else next(x for x in w["einsums"] if x["name"] == einsum)
    tensors = [t["name"] for t in e["tensors"]]
    mems = a["mems"]
    rvs = sorted({v for t in e["tensors"] for v in t["proj"]})
    items = []
    for rv in rvs:
        for tile in factor_chains(w["ranks"][rv], rnd):
            items.append(("T", rv, tile))
    # storage nodes of inner memories: per tensor an ordered list of levels it uses
    per_tensor = {}
    for t in tensors:
        lv = [i for i in range(1, len(mems)) if (holders[t][i] if holders else rnd.random() < 0.6)]
        per_tensor[t] = lv
    for t in tensors:
        for i in per_tensor[t]:
            items.append(("S", t, i))
    # random interleaving that keeps (a) per-rank-variable loop order, (b) per-tensor level order,
    # (c) outer memories' nodes above inner memories' nodes
    loops = {rv: [x for x in items if x[0] == "T" and x[1] == rv] for rv in rvs}
    stor = sorted([x for x in items if x[0] == "S"], key=lambda x: (x[2], rnd.random()))
    seq = []
    pending_loops = {rv: list(l) for rv, l in loops.items()}
    pending_stor = list(stor)
    while pending_stor or any(pending_loops.values()):
        choices = []
        if pending_stor:
            choices.append("S")
        choices += [rv for rv, l in pending_loops.items() if l]
        c = rnd.choice(choices)
        if c == "S":
            seq.append(pending_stor.pop(0))
        else:
            seq.append(pending_loops[c].pop(0))
    tree = [{"t": "S", "tensors": list(tensors), "comp": mems[0]["name"]}]
    for x in seq:
        if x[0] == "T":
            tree.append({"t": "T", "rv": x[1], "tile": x[2]})
        else:
            if tree and tree[-1]["t"] == "S" and tree[-1]["comp"] == mems[x[2]]["name"] and rnd.random() < 0.5:
                tree[-1]["tensors"].append(x[1])
            else:
                node = {"t": "S", "tensors": [x[1]], "comp": mems[x[2]]["name"]}
                if mems[x[2]].get("kind") == "Toll":
                    node["toll"] = True
                tree.append(node)
    tree.append({"t": "C", "einsum": e["name"], "comp": a["mac"]["name"]})
    return tree
