"""Random workloads with input/output/persistent/shared structure, random set-expression
trees, and their frozenset oracle (C22, C29)."""
NAMED = ["All", "Inputs", "Outputs", "Intermediates", "Shared", "Persistent", "Nothing"]
PREC = {"|": 1, "^": 2, "&": 3, "-": 4}   # python: - binds tighter than &, then ^, then |


def gen_workload(rnd, n_einsums=None):
    """Returns dict: einsums=[{name, inputs, output}], persistent=set(names)."""
    n = n_einsums or rnd.randint(1, 4)
    pool_ext = [f"I{i}" for i in range(6)]
    einsums, produced = [], []
    for i in range(n):
        k = rnd.randint(1, 3)
        cands = produced + pool_ext
        ins = []
        for _ in range(k):
            t = rnd.choice(produced) if produced and rnd.random() < 0.5 else rnd.choice(cands)
            if t not in ins:
                ins.append(t)
        out = f"T{i}"
        einsums.append({"name": f"E{i}", "inputs": ins, "output": out})
        produced.append(out)
    tensors = sorted({t for e in einsums for t in e["inputs"] + [e["output"]]})
    persistent = {t for t in tensors if rnd.random() < 0.25}
    return {"einsums": einsums, "persistent": sorted(persistent)}


def workload_yaml(w, renames_per_einsum=None):
    renames_per_einsum = renames_per_einsum or {}
    es = []
    for e in w["einsums"]:
        acc = []
        for t in e["inputs"]:
            a = {"name": t, "projection": ["a", "b"]}
            if t in w["persistent"]:
                a["persistent"] = True
            acc.append(a)
        a = {"name": e["output"], "projection": ["a", "b"], "output": True}
        if e["output"] in w["persistent"]:
            a["persistent"] = True
        acc.append(a)
        d = {"name": e["name"], "tensor_accesses": acc}
        if renames_per_einsum.get(e["name"]):
            d["renames"] = renames_per_einsum[e["name"]]
        es.append(d)
    return {"rank_sizes": {"A": 2, "B": 2}, "bits_per_value": {"All": 8}, "einsums": es}


def named_sets(w, ename):
    e = next(x for x in w["einsums"] if x["name"] == ename)
    all_ = frozenset(e["inputs"] + [e["output"]])
    readers, writers, users = {}, {}, {}
    for x in w["einsums"]:
        for t in x["inputs"]:
            readers.setdefault(t, set()).add(x["name"])
            users.setdefault(t, set()).add(x["name"])
        writers.setdefault(x["output"], set()).add(x["name"])
        users.setdefault(x["output"], set()).add(x["name"])
    env = {
        "All": all_, "Nothing": frozenset(),
        "Inputs": frozenset(e["inputs"]), "Outputs": frozenset([e["output"]]),
        "Intermediates": frozenset(t for t in all_ if readers.get(t) and writers.get(t)),
        "Shared": frozenset(t for t in all_ if len(users.get(t, ())) > 1),
        "Persistent": frozenset(t for t in all_ if t in w["persistent"]),
    }
    every = {t for x in w["einsums"] for t in x["inputs"] + [x["output"]]}
    for t in every:
        env[t] = frozenset([t]) if t in all_ else frozenset()
    return env, all_


def gen_tree(rnd, atoms, depth=0, max_depth=4):
    if depth >= max_depth or (depth > 0 and rnd.random() < 0.3):
        return ("atom", rnd.choice(atoms))
    x = rnd.random()
    if x < 0.2:
        return ("~", gen_tree(rnd, atoms, depth + 1, max_depth))
    op = rnd.choice(["&", "|", "-", "^"])
    return (op, gen_tree(rnd, atoms, depth + 1, max_depth), gen_tree(rnd, atoms, depth + 1, max_depth))


def render(t, rnd=None, parent_prec=0, right=False):
    if t[0] == "atom":
        return t[1]
    if t[0] == "~":
        inner = render(t[1], rnd, 9)
        return "~" + inner
    p = PREC[t[0]]
    sp = " " if rnd is None else rnd.choice(["", " "])
    s = render(t[1], rnd, p) + sp + t[0] + sp + render(t[2], rnd, p, True)
    if p < parent_prec or (p == parent_prec and right) or (rnd is not None and rnd.random() < 0.3):
        return "(" + s + ")"
    return s


def evaluate(t, env, full):
    if t[0] == "atom":
        return env[t[1]]
    if t[0] == "~":
        return full - evaluate(t[1], env, full)
    a, b = evaluate(t[1], env, full), evaluate(t[2], env, full)
    return {"&": a & b, "|": a | b, "-": a - b, "^": a ^ b}[t[0]]


def depth(t):
    return 0 if t[0] == "atom" else 1 + max(depth(x) for x in t[1:])
