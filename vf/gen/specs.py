"""The shared 'small spec' family (DESIGN 1.1): seeded generator of workload + memory-hierarchy
architecture descriptions (plain JSON-able dicts) and their rendering to accelforge YAML.

desc = {"workload": {...}, "arch": {...}, "mapper": {...}, "class": "..."}
"""
import copy
import math

BOUNDS = [2, 3, 4, 6, 8, 9, 12]


# --------------------------------------------------------------------------- workloads
def _mm(name, a, b, c, m, k, n):
    return {"name": name, "tensors": [{"name": a, "proj": [m, k], "out": False},
                                      {"name": b, "proj": [k, n], "out": False},
                                      {"name": c, "proj": [m, n], "out": True}]}


def gen_workload(rnd, kind=None, max_ops=400):
    kind = kind or rnd.choice(["mm1", "mm1", "mv1", "ew1", "chain2", "chain2", "fanin2", "chain3"])
    if kind == "mm1":
        einsums = [_mm("E0", "A", "B", "C", "m", "k", "n")]
        rvs = ["m", "k", "n"]
    elif kind == "mv1":
        einsums = [{"name": "E0", "tensors": [{"name": "A", "proj": ["k"], "out": False},
                                              {"name": "B", "proj": ["k", "n"], "out": False},
                                              {"name": "C", "proj": ["n"], "out": True}]}]
        rvs = ["k", "n"]
    elif kind == "ew1":
        einsums = [{"name": "E0", "tensors": [{"name": "A", "proj": ["m", "n"], "out": False},
                                              {"name": "C", "proj": ["m", "n"], "out": True}]}]
        rvs = ["m", "n"]
    elif kind == "chain2":
        einsums = [_mm("E0", "T0", "W0", "T1", "m", "n0", "n1"), _mm("E1", "T1", "W1", "T2", "m", "n1", "n2")]
        rvs = ["m", "n0", "n1", "n2"]
    elif kind == "chain3":
        einsums = [_mm("E0", "T0", "W0", "T1", "m", "n0", "n1"), _mm("E1", "T1", "W1", "T2", "m", "n1", "n2"),
                   _mm("E2", "T2", "W2", "T3", "m", "n2", "n3")]
        rvs = ["m", "n0", "n1", "n2", "n3"]
    elif kind in ("bchain2", "bchain3"):
        # batched matmul chain: intermediates carry TWO ranks (b, m) that can both be fused; the weights pick
        # up b, m or neither so the per-Einsum tables differ in which shared loops are relevant to them
        n = int(kind[-1])
        einsums = []
        for i in range(n):
            extra = rnd.choice([[], ["b"], ["m"], []])
            einsums.append({"name": f"E{i}", "tensors": [
                {"name": f"T{i}", "proj": ["b", "m", f"n{i}"], "out": False},
                {"name": f"W{i}", "proj": extra + [f"n{i}", f"n{i + 1}"], "out": False},
                {"name": f"T{i + 1}", "proj": ["b", "m", f"n{i + 1}"], "out": True}]})
        rvs = ["b", "m"] + [f"n{i}" for i in range(n + 1)]
    elif kind == "pshare2":
        # a tensor P read by BOTH Einsums of a chain (meant to be declared persistent)
        einsums = [_mm("E0", "P", "W0", "T1", "m", "n0", "n1"),
                   {"name": "E1", "tensors": [{"name": "T1", "proj": ["m", "n1"], "out": False},
                                              {"name": "P", "proj": ["m", "n0"], "out": False},
                                              {"name": "T2", "proj": ["m", "n1"], "out": True}]}]
        rvs = ["m", "n0", "n1"]
    elif kind == "fanin2":
        einsums = [_mm("E0", "X", "W0", "Y0", "m", "k", "n0"), _mm("E1", "X", "W1", "Y1", "m", "k", "n1")]
        rvs = ["m", "k", "n0", "n1"]
    elif kind == "mvchain2":
        einsums = [{"name": "E0", "tensors": [{"name": "A", "proj": ["na"], "out": False},
                                              {"name": "B", "proj": ["na", "ny"], "out": False},
                                              {"name": "Y", "proj": ["ny"], "out": True}]},
                   {"name": "E1", "tensors": [{"name": "Y", "proj": ["ny"], "out": False},
                                              {"name": "Cw", "proj": ["ny", "nz"], "out": False},
                                              {"name": "Z", "proj": ["nz"], "out": True}]}]
        rvs = ["na", "ny", "nz"]
    else:
        raise ValueError(kind)
    pool = BOUNDS if len(einsums) == 1 else ([2, 2, 3, 4] if kind.startswith("bchain") else [2, 3, 4, 6])
    for _ in range(50):
        ranks = {rv: rnd.choice(pool) for rv in rvs}
        ops = max(math.prod(ranks[v] for t in e["tensors"] for v in t["proj"] if True) for e in einsums)
        per_e = [math.prod(ranks[v] for v in {v for t in e["tensors"] for v in t["proj"]}) for e in einsums]
        if max(per_e) <= max_ops:
            break
    return {"kind": kind, "ranks": ranks, "bits": rnd.choice([8, 8, 8, 4, 16]), "einsums": einsums,
            "persistent": None, "n_instances": 1}


def tensor_sizes(w):
    out = {}
    for e in w["einsums"]:
        for t in e["tensors"]:
            out[t["name"]] = math.prod(w["ranks"][v] for v in t["proj"])
    return out


# --------------------------------------------------------------------------- architectures
KEEP_VARIANTS = [("Nothing", "All"), ("Nothing", "All"), ("~MainMemory", "All"), ("Inputs", "All"),
                 ("Nothing", "Inputs | Outputs"), ("Outputs", "All")]


def gen_arch(rnd, w, levels=None, size_class=None, costs=None):
    levels = levels or rnd.choice([2, 2, 3])
    size_class = size_class or rnd.choice(["inf", "generous", "tight", "tight"])
    costs = costs or rnd.choice(["tradeoff", "tradeoff", "random", "cheap_inner"])
    sizes = sorted(tensor_sizes(w).values())
    bits = w["bits"]
    mems = [{"name": "MainMemory", "size": "inf", "keep": "~Intermediates", "may_keep": "All"}]
    inner_names = ["GLB", "RF"][: levels - 1]
    for i, nm in enumerate(inner_names):
        if size_class == "inf":
            size = "inf"
        elif size_class == "generous":
            size = sum(sizes) * bits * 2
        else:
            # capacity that actually binds: between one small tile and everything
            lo = max(2, sizes[0] // 2)
            hi = max(lo + 1, sum(sizes))
            size = rnd.randint(lo, hi) * bits
            if i == 1:
                size = max(bits * 2, size // rnd.choice([2, 3, 4]))
        keep, may = rnd.choice(KEEP_VARIANTS)
        mems.append({"name": nm, "size": size, "keep": keep, "may_keep": may})
    if len(w["einsums"]) > 1:
        # an intermediate tensor must always have a holder: either MainMemory keeps everything (unfused) or the
        # first inner memory keeps whatever MainMemory does not (the mapper raises on a template without a holder)
        if rnd.random() < 0.25:
            mems[0]["keep"] = "All"
        else:
            mems[1]["keep"] = rnd.choice(["~MainMemory", "~MainMemory", "~MainMemory | Inputs"])
            mems[1]["may_keep"] = "All"

    def loggrid():
        return rnd.choice([0.5, 1, 2, 5, 10, 30, 100, 300])
    for i, m in enumerate(mems):
        if costs == "tradeoff":
            # outer memory expensive but fast, inner cheap but slow -> energy and latency genuinely trade off
            m["read_e"], m["write_e"] = ([100, 100] if i == 0 else ([1, 1] if i == 1 else [0.5, 0.5]))
            m["read_tp"], m["write_tp"] = ([8, 8] if i == 0 else ([1, 1] if i == 1 else [2, 2]))
        elif costs == "cheap_inner":
            m["read_e"], m["write_e"] = ([100, 120] if i == 0 else [2, 3])
            m["read_tp"], m["write_tp"] = ("inf", "inf")
        else:
            m["read_e"], m["write_e"] = loggrid(), loggrid()
            m["read_tp"], m["write_tp"] = rnd.choice(["inf", 1, 2, 8]), rnd.choice(["inf", 1, 2, 8])
        m["leak"] = 0
    mac = {"name": "MAC", "energy": rnd.choice([1, 1, 0.5, 3]), "tp": rnd.choice([1, 1, 2]), "leak": 0}
    return {"mems": mems, "mac": mac, "levels": levels, "size_class": size_class, "costs": costs}


def shrinking_chain_spec(rnd, n_einsums=2, costs="tradeoff"):
    """Matmul chain whose LAST Einsum is much smaller than the first, with a buffer that holds all tensors of the
    last Einsum but not those of the first one (capacity binds for E0 only)."""
    d = gen_spec(rnd, "chain2" if n_einsums == 2 else "chain3", levels=2, size_class="tight", costs=costs)
    w = d["workload"]
    rvs = ["n%d" % i for i in range(n_einsums + 1)]
    w["ranks"]["m"] = rnd.choice([2, 3, 4])
    w["ranks"][rvs[0]] = rnd.choice([4, 6, 8])
    w["ranks"][rvs[1]] = rnd.choice([4, 6])
    for rv in rvs[2:]:
        w["ranks"][rv] = 2
    sz = tensor_sizes(w)
    per = [sum(sz[t["name"]] for t in e["tensors"]) for e in w["einsums"]]
    lo, hi = per[-1], max(per[-1] + 1, per[0] - 1)
    d["arch"]["mems"][0]["keep"] = "~Intermediates"
    d["arch"]["mems"][1].update(size=rnd.randint(lo, hi) * w["bits"], keep="~MainMemory", may_keep="All")
    d["arch"]["size_class"] = "tight-shrinking"
    d["class"] = f"{w['kind']}/2L/tight-shrinking/{costs}"
    return d


def gen_spec(rnd, wkind=None, **arch_kw):
    w = gen_workload(rnd, wkind)
    a = gen_arch(rnd, w, **arch_kw)
    return {"workload": w, "arch": a, "mapper": {},
            "class": f"{w['kind']}/{a['levels']}L/{a['size_class']}/{a['costs']}"}


# --------------------------------------------------------------------------- rendering
def workload_yaml(w):
    es = []
    for e in w["einsums"]:
        tas = []
        for t in e["tensors"]:
            d = {"name": t["name"], "projection": list(t["proj"]) if isinstance(t["proj"], list) else dict(t["proj"])}
            if t["out"]:
                d["output"] = True
            if t.get("bits") is not None:
                d["bits_per_value"] = t["bits"]
            tas.append(d)
        d = {"name": e["name"], "tensor_accesses": tas}
        if e.get("n_instances", 1) != 1:
            d["n_instances"] = e["n_instances"]
        es.append(d)
    out = {"iteration_space_shape": {rv: f"0 <= {rv} < {b}" for rv, b in w["ranks"].items()},
           "bits_per_value": {"All": w["bits"]}, "einsums": es}
    if w.get("persistent"):
        out["persistent_tensors"] = w["persistent"]
    if w.get("n_instances", 1) != 1:
        out["n_instances"] = w["n_instances"]
    return out


def arch_yaml(a):
    nodes = []
    for m in a["mems"]:
        if m.get("kind") == "Toll":
            d = {"!tag": "Toll", "name": m["name"], "leak_power": m.get("leak", 0), "area": 0,
                 "direction": m["direction"],
                 "tensors": {"keep": m.get("keep", "All"), "may_keep": m.get("may_keep", "All")},
                 "actions": [{"name": "read", "energy": m["read_e"], "throughput": m["read_tp"]}]}
        elif m.get("kind") == "Container":
            d = {"!tag": "Container", "name": m["name"]}
        else:
            d = {"!tag": "Memory", "name": m["name"], "size": m["size"], "leak_power": m.get("leak", 0), "area": 0,
                 "tensors": {"keep": m["keep"], "may_keep": m["may_keep"]},
                 "actions": [{"name": "read", "energy": m["read_e"], "throughput": m["read_tp"]},
                             {"name": "write", "energy": m["write_e"], "throughput": m["write_tp"]}]}
            for act, key in (("read", "read_bpa"), ("write", "write_bpa")):
                if m.get(key) is not None:
                    d["actions"][0 if act == "read" else 1]["bits_per_action"] = m[key]
            for act, key in (("read", "read_vpa"), ("write", "write_vpa")):
                if m.get(key) is not None:
                    d["actions"][0 if act == "read" else 1]["values_per_action"] = m[key]
        for k_src, k_dst in (("bits_per_value", "bits_per_value"), ("bits_per_action", "bits_per_action"),
                             ("values_per_action", "values_per_action"), ("skip", "skip_initial_output_write"),
                             ("actions_scale", "actions_scale"), ("total_latency", "total_latency")):
            if m.get(k_src) is not None:
                d[k_dst] = m[k_src]
        if m.get("spatial"):
            d["spatial"] = copy.deepcopy(m["spatial"])
        nodes.append(d)
    mac = a["mac"]
    d = {"!tag": "Compute", "name": mac["name"], "leak_power": mac.get("leak", 0), "area": 0,
         "actions": [{"name": "compute", "energy": mac["energy"], "throughput": mac["tp"]}]}
    if mac.get("skip") is not None:
        d["skip_initial_output_write"] = mac["skip"]
    if mac.get("spatial"):
        d["spatial"] = copy.deepcopy(mac["spatial"])
    nodes.append(d)
    return {"nodes": nodes}


def spec_yaml(desc, mapping=None):
    out = {"workload": workload_yaml(desc["workload"]), "arch": arch_yaml(desc["arch"])}
    if mapping is not None:
        out["mapping"] = mapping
    return out


def summary(desc):
    w, a = desc["workload"], desc["arch"]
    return {"workload": w["kind"], "ranks": w["ranks"], "bits": w["bits"],
            "mems": [{k: m.get(k) for k in ("name", "size", "keep", "may_keep", "read_e", "write_e", "read_tp", "write_tp")}
                     for m in a["mems"]], "mac": a["mac"], "mapper": desc.get("mapper", {})}
