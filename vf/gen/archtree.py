"""Generator-side architecture trees (C25/C26/C27) and their oracles.

A tree is a list of node dicts: {"kind": Memory|Toll|Container|Compute|Fork|Hierarchical,
"name", "fanouts": [[dim, n], ...], "area", "leak", "children": [...]}.  The oracles below
only ever look at this description, never at accelforge objects.
"""
import itertools

LEAF_KINDS = ("Memory", "Toll", "Container")


def gen_tree(rnd, max_depth=3, shared_dims=False, fanout_prob=0.45):
    counter = itertools.count()
    dims = itertools.count()

    def fan():
        if rnd.random() > fanout_prob:
            return []
        out = []
        for _ in range(rnd.choice([1, 1, 2])):
            name = rnd.choice(["X", "Y"]) if shared_dims else f"d{next(dims)}"
            if name in [d for d, _ in out]:
                continue
            out.append([name, rnd.choice([1, 2, 2, 3, 4])])
        return out

    def leaf(kind):
        return {"kind": kind, "name": f"{kind[0].lower()}{next(counter)}", "fanouts": fan(),
                "area": rnd.randint(1, 9), "leak": rnd.randint(1, 9), "children": []}

    def seq(depth, must_end_compute):
        nodes = []
        for _ in range(rnd.randint(1, 4)):
            x = rnd.random()
            if depth > 0 and x < 0.18:
                nodes.append({"kind": "Fork", "name": None, "fanouts": [], "children": seq(depth - 1, True)})
            elif depth > 0 and x < 0.32:
                nodes.append({"kind": "Hierarchical", "name": None, "fanouts": [], "children": seq(depth - 1, False)})
            elif x < 0.5:
                nodes.append(leaf("Compute"))
            else:
                nodes.append(leaf(rnd.choice(LEAF_KINDS)))
        if must_end_compute and nodes[-1]["kind"] != "Compute":
            nodes.append(leaf("Compute"))
        return nodes

    return seq(max_depth, True)


def to_yaml_nodes(tree, extra=None):
    """accelforge arch `nodes` list for a tree. extra: name -> dict of extra fields."""
    extra = extra or {}
    out = []
    for n in tree:
        k = n["kind"]
        if k in ("Fork", "Hierarchical"):
            out.append({"!tag": k, "nodes": to_yaml_nodes(n["children"], extra)})
            continue
        d = {"!tag": k, "name": n["name"]}
        if n["fanouts"]:
            d["spatial"] = [{"name": dn, "fanout": f} for dn, f in n["fanouts"]]
        if k != "Container":
            d["area"] = n["area"]
            d["leak_power"] = n["leak"]
        if k == "Memory":
            d["size"] = "inf"
            d["actions"] = [{"name": "read", "energy": 1, "throughput": 1}, {"name": "write", "energy": 1, "throughput": 1}]
        elif k == "Toll":
            d["direction"] = "down"
            d["actions"] = [{"name": "read", "energy": 1, "throughput": 1}]
        elif k == "Compute":
            d["actions"] = [{"name": "compute", "energy": 1, "throughput": 1}]
        d.update(extra.get(n["name"], {}))
        out.append(d)
    return out


def all_leaves(tree):
    for n in tree:
        if n["kind"] in ("Fork", "Hierarchical"):
            yield from all_leaves(n["children"])
        else:
            yield n


def contains(tree, name):
    return any(l["name"] == name for l in all_leaves(tree))


def path_to(tree, target):
    """Top-down list of leaves on the way to leaf `target` (inclusive): non-compute leaves
    met in order, descending into plain hierarchies, into a Fork only when it contains the
    target; other computes are not on the path. Returns (path, found)."""
    out = []
    for n in tree:
        k = n["kind"]
        if k == "Fork":
            if contains(n["children"], target):
                sub, found = path_to(n["children"], target)
                return out + sub, found
        elif k == "Hierarchical":
            sub, found = path_to(n["children"], target)
            out += sub
            if found:
                return out, True
        elif n["name"] == target:
            return out + [n], True
        elif k == "Compute":
            continue
        else:
            out.append(n)
    return out, False


def fanout_of(n):
    f = 1
    for _, x in n["fanouts"]:
        f *= x
    return f


def instances(tree, name):
    path, found = path_to(tree, name)
    assert found
    f = 1
    for n in path:
        f *= fanout_of(n)
    return f


def shape(tree):
    """Canonical structural description (names dropped) for distinctness."""
    return [[n["kind"][0], tuple(f for _, f in n["fanouts"]), shape(n["children"])] if n["kind"] in ("Fork", "Hierarchical")
            else [n["kind"][0], tuple(f for _, f in n["fanouts"])] for n in tree]
