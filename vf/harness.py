"""Boundary helpers around the real mapper and model: build specs from generated
descriptions, run map_workload_to_arch in-process, convert returned mappings to plain
trees (user-facing fields only) and re-evaluate plain trees with evaluate_mapping on a
fresh spec."""
import json
import math
import os

from . import yamlgen
from .gen import specs as gs

SEP = "<SEP>"
METRIC_NAMES = {"ENERGY": "energy", "LATENCY": "latency", "ENERGY_DELAY_PRODUCT": "energy_delay_product"}


def metrics_of(names):
    from accelforge.mapper import Metrics
    m = None
    for n in names.split("|"):
        v = getattr(Metrics, n.strip())
        m = v if m is None else (m | v)
    return m


def serial():
    from accelforge.util.parallel import set_n_parallel_jobs
    set_n_parallel_jobs(1)


def build_spec(desc, mapping=None, fixed_path=None):
    spec = yamlgen.load_spec(gs.spec_yaml(desc, mapping), fixed_path=fixed_path)
    mp = desc.get("mapper") or {}
    for k, v in mp.items():
        if k == "metrics":
            spec.mapper.metrics = metrics_of(v)
        else:
            setattr(spec.mapper, k, (float("inf") if v == "inf" else v))
    return spec


class NoMapping(Exception):
    pass


class MapperTimeout(Exception):
    """The in-process mapper run exceeded its wall-clock watchdog: inconclusive, never a verdict."""


def run_mapper(desc, metrics=None, eval_in_detail=True, n_jobs=1, timeout=150, spec_path=None, **kw):
    """Returns the Mappings object; raises NoMapping when the mapper reports that no valid
    mapping exists."""
    from accelforge.mapper.FFM.main import map_workload_to_arch
    from accelforge.util.parallel import set_n_parallel_jobs
    set_n_parallel_jobs(n_jobs)
    spec = build_spec(desc, fixed_path=spec_path)
    if metrics is not None:
        spec.mapper.metrics = metrics_of(metrics)
    from .timeouts import ItemTimeout, time_limit
    try:
        with time_limit(timeout):
            return map_workload_to_arch(spec, print_progress=False, eval_in_detail=eval_in_detail, **kw)
    except ItemTimeout:
        raise MapperTimeout(f"mapper watchdog {timeout}s")
    except Exception as e:
        msg = str(e)
        if "No valid" in msg or "no valid" in msg or "No pmappings" in msg or "no pmappings" in msg \
                or "No mappings" in msg or "no mappings" in msg:
            raise NoMapping(msg[:300])
        raise


# --------------------------------------------------------------------------- plain trees
def plain_tree(mapping):
    """accelforge Mapping -> plain nested list (Reservation nodes dropped)."""
    def conv(nodes):
        out = []
        for n in nodes:
            k = type(n).__name__
            if k == "Reservation":
                continue
            if k in ("Storage", "Toll"):
                node = {"t": "S", "tensors": [str(x) for x in n.tensors], "comp": str(n.component)}
                if k == "Toll":
                    node["toll"] = True
                if getattr(n, "persistent", False):
                    node["persistent"] = True
                out.append(node)
            elif k == "Temporal":
                out.append({"t": "T", "rv": str(n.rank_variable), "tile": _num(n.tile_shape)})
            elif k == "Spatial":
                out.append({"t": "P", "rv": str(n.rank_variable), "tile": _num(n.tile_shape), "name": str(n.name),
                            "comp": str(n.component)})
            elif k == "Compute":
                out.append({"t": "C", "einsum": str(n.einsum), "comp": str(n.component)})
            elif k in ("Sequential", "Pipeline"):
                out.append({"t": "Q", "branches": [conv(b.nodes if hasattr(b, "nodes") else [b]) for b in n.nodes]})
            elif k == "Nested":
                out.extend(conv(n.nodes))
            else:
                out.append({"t": "?", "kind": k})
        return out
    return conv(mapping.nodes)


def _num(x):
    try:
        f = float(x)
        return int(f) if f == int(f) else f
    except Exception:
        return str(x)


def tree_yaml(tree):
    def conv(nodes):
        out = []
        for n in nodes:
            if n["t"] == "S":
                out.append({"!tag": "Toll" if n.get("toll") else "Storage", "tensors": list(n["tensors"]), "component": n["comp"]})
                if n.get("persistent"):
                    out[-1]["persistent"] = True
            elif n["t"] == "T":
                out.append({"!tag": "Temporal", "rank_variable": n["rv"], "tile_shape": n["tile"]})
            elif n["t"] == "P":
                out.append({"!tag": "Spatial", "rank_variable": n["rv"], "tile_shape": n["tile"], "name": n["name"],
                            "component": n["comp"]})
            elif n["t"] == "C":
                out.append({"!tag": "Compute", "einsum": n["einsum"], "component": n["comp"]})
            elif n["t"] == "Q":
                out.append({"!tag": "Sequential", "nodes": [{"!tag": "Nested", "nodes": conv(b)} for b in n["branches"]]})
            else:
                raise ValueError(n)
        return out
    return {"nodes": conv(tree)}


def tree_key(tree):
    """Canonical structure dump (tensor order inside one Storage node is not structure)."""
    def canon(nodes):
        out = []
        for n in nodes:
            n = dict(n)
            if n["t"] == "S":
                n["tensors"] = sorted(n["tensors"])
            if n["t"] == "Q":
                n["branches"] = [canon(b) for b in n["branches"]]
            out.append(n)
        return out
    return json.dumps(canon(tree), sort_keys=True)


def eval_tree(desc, tree):
    """evaluate_mapping on a fresh, unevaluated spec carrying the plain tree."""
    from accelforge.model.main import evaluate_mapping
    spec = build_spec(desc, tree_yaml(tree))
    return evaluate_mapping(spec)


# --------------------------------------------------------------------------- result rows
def result_rows(res, with_tree=True):
    """One dict per returned mapping: totals, per-memory usage and (optionally) the plain tree."""
    data = res.data
    rows = []
    for i in range(len(data)):
        r = data.iloc[i]
        row = {"energy": _get(r, "Total<SEP>energy"), "latency": _get(r, "Total<SEP>latency"),
               "edp": _get(r, "Total<SEP>energy_delay_product"), "usage": {}, "reservations": {}}
        for c in data.columns:
            if c.startswith("reservation" + SEP):
                parts = c.split(SEP)
                row["usage"][parts[1]] = max(row["usage"].get(parts[1], 0.0), float(r[c]))
                row["reservations"][c] = float(r[c])
        if with_tree:
            row["tree"] = plain_tree(r["Total<SEP>mapping"]())
        rows.append(row)
    return rows


def _get(r, c):
    try:
        return float(r[c])
    except Exception:
        return None


def objective(row, metric):
    return {"ENERGY": row["energy"], "LATENCY": row["latency"],
            "ENERGY_DELAY_PRODUCT": row["edp"] if row.get("edp") is not None else
            (None if row["energy"] is None or row["latency"] is None else row["energy"] * row["latency"])}[metric]


def close(a, b, rel=2.0 ** -18, abs_tol=1e-9):
    if a is None or b is None:
        return a is b
    return abs(a - b) <= max(abs_tol, rel * max(abs(a), abs(b)))
