"""Picklable job bodies used by the C32/C20 workloads (imported by loky workers)."""
import os
import time


def tagged(i, nonce, sleep_ms):
    if sleep_ms:
        time.sleep(sleep_ms / 1000.0)
    return (i, nonce, time.monotonic_ns(), os.getpid())


def failing(i):
    raise RuntimeError(f"job {i} fails on purpose")
