"""Nested wall-clock watchdogs on SIGALRM. The outer (per-case) watchdog of vf.worker stays
armed: an inner limit re-arms the timer for the nearer deadline and restores it on exit.
A firing inner watchdog means 'inconclusive for this item', never a verdict."""
import signal
import time
from contextlib import contextmanager


class ItemTimeout(BaseException):
    pass


@contextmanager
def time_limit(seconds):
    old_handler = signal.getsignal(signal.SIGALRM)
    remaining_outer = signal.getitimer(signal.ITIMER_REAL)[0]
    t0 = time.time()

    def handler(signum, frame):
        raise ItemTimeout()

    inner = seconds if not remaining_outer else min(seconds, max(0.01, remaining_outer - 0.5))
    signal.signal(signal.SIGALRM, handler)
    signal.setitimer(signal.ITIMER_REAL, inner)
    try:
        yield
    finally:
        signal.setitimer(signal.ITIMER_REAL, 0)
        signal.signal(signal.SIGALRM, old_handler)
        if remaining_outer:
            left = remaining_outer - (time.time() - t0)
            signal.setitimer(signal.ITIMER_REAL, max(0.05, left))
