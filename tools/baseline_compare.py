#!/venv/bin/python
"""Run the repository's own suite with the guard OFF and compare with BASELINE.json stable_pass.
usage: tools/baseline_compare.py [--fast]   (--fast: skip notebooks/regression, use xdist)"""
import json, os, subprocess, sys, xml.etree.ElementTree as ET
fast = "--fast" in sys.argv
out = "/tmp/baseline_junit.xml"
cmd = ["/venv/bin/python", "-m", "pytest", "-q", "-p", "no:cacheprovider", "--timeout=900",
       "--continue-on-collection-errors", f"--junitxml={out}"]
if fast:
    cmd += ["-n", "8", "--ignore=tests/test_notebooks.py", "--ignore=tests/test_regression.py"]
else:
    cmd += ["-n", "6"]
env = {k: v for k, v in os.environ.items() if not k.startswith("ACCELFORGE_VERIF")}
subprocess.run(cmd, cwd="/repo", env=env, stdout=subprocess.DEVNULL, stderr=subprocess.DEVNULL)
passed = set()
for tc in ET.parse(out).getroot().iter("testcase"):
    if not any(c.tag in ("failure", "error", "skipped") for c in tc):
        passed.add(f"{tc.get('classname')}::{tc.get('name')}")
sp = set(json.load(open("/root/.vp/BASELINE.json"))["stable_pass"])
if fast:
    sp = {t for t in sp if not t.startswith(("tests.test_notebooks", "tests.test_regression"))}
missing = sorted(sp - passed)
print(f"stable_pass considered={len(sp)} passed_now={len(sp & passed)} missing={len(missing)}")
for m in missing[:40]:
    print("  NOT PASSING:", m)
for f in ("/repo/mapping.svg", "/repo/notebooks/tutorials/mapping.svg"):
    if os.path.exists(f):
        os.remove(f)
sys.exit(1 if missing else 0)
