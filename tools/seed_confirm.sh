#!/bin/bash
# usage: tools/seed_confirm.sh <worktree>   - confirm an agent's deliverable inside its own worktree:
# demo passes without the change, fails with it.
WT="$1"; cd "$WT" || exit 2
echo "== with change:"; PYTHONPATH="$WT" timeout 900 /venv/bin/python demo.py > /tmp/seed_demo_with.log 2>&1; echo "rc=$?"; tail -3 /tmp/seed_demo_with.log | cut -c1-300
git stash -q -- accelforge || { echo "stash failed"; exit 2; }
echo "== without change:"; PYTHONPATH="$WT" timeout 900 /venv/bin/python demo.py > /tmp/seed_demo_without.log 2>&1; echo "rc=$?"; tail -3 /tmp/seed_demo_without.log | cut -c1-300
git stash pop -q
git diff --stat -- accelforge | tail -2
