#!/bin/bash
# usage: tools/seed_confirm.sh <worktree>   - confirm an agent's deliverable inside its own worktree:
# demo fails with the change, passes without it (the change is reverted with `git apply -R` and re-applied).
WT="$1"; cd "$WT" || exit 2
N=$(basename "$WT")
git diff -- accelforge > /tmp/seed_$N.cur.diff
[ -s /tmp/seed_$N.cur.diff ] || { echo "no change applied in $WT"; exit 2; }
echo "== with change:"; PYTHONPATH="$WT" timeout 1800 /venv/bin/python demo.py > /tmp/seed_${N}_with.log 2>&1; echo "rc=$?"; tail -3 /tmp/seed_${N}_with.log | cut -c1-300
git apply -R /tmp/seed_$N.cur.diff || { echo "revert failed"; exit 2; }
echo "== without change:"; PYTHONPATH="$WT" timeout 1800 /venv/bin/python demo.py > /tmp/seed_${N}_without.log 2>&1; echo "rc=$?"; tail -3 /tmp/seed_${N}_without.log | cut -c1-300
git apply /tmp/seed_$N.cur.diff
git diff --stat -- accelforge | tail -2
