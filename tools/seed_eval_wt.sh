#!/bin/bash
# usage: tools/seed_eval_wt.sh <worktree> <tier> <ID> [<ID> ...]
# Development shortcut: runs the checks against a scratch worktree (PYTHONPATH) instead of /repo; evidence goes
# to a scratch directory.  The confirming run is always tools/seed_eval.sh (git -C /repo apply ... checkout).
WT="$1"; TIER="$2"; shift 2
cd /verif || exit 2
export VERIF_EVIDENCE_DIR=/tmp/seed_evidence_$(basename "$WT"); mkdir -p "$VERIF_EVIDENCE_DIR"
for ID in "$@"; do
  OUT=$(PYTHONPATH="$WT" ./check "$ID" --tier "$TIER" ${SEED:+--seed $SEED} 2>&1); RC=$?
  NV=$(echo "$OUT" | grep -c "^VIOLATION")
  echo "== $ID rc=$RC violations=$NV :: $(echo "$OUT" | grep -E "^$ID tier" | cut -c1-160)"
  echo "$OUT" | grep "^VIOLATION" | sed 's/replay=[^ ]* //' | cut -c1-200 | sort | uniq -c | head -5
done
