#!/bin/bash
# usage: tools/seed_eval.sh <patch.diff> <tier> <ID> [<ID> ...]
# Applies a seeded change to /repo, runs the named checks, and ALWAYS restores /repo afterwards.
PATCH="$1"; TIER="$2"; shift 2
cd /verif || exit 2
if [ -n "$(git -C /repo status --porcelain --untracked-files=no)" ]; then echo "/repo not clean"; exit 2; fi
git -C /repo apply "$PATCH" || { echo "patch does not apply"; exit 2; }
trap 'git -C /repo checkout -- . ; rm -f /repo/mapping.svg' EXIT
for ID in "$@"; do
  OUT=$(./check "$ID" --tier "$TIER" 2>&1); RC=$?
  NV=$(echo "$OUT" | grep -c "^VIOLATION")
  echo "== $ID rc=$RC violations=$NV :: $(echo "$OUT" | grep -E "^$ID tier" | cut -c1-160)"
  echo "$OUT" | grep "^VIOLATION" | sed 's/replay=[^ ]* //' | cut -c1-200 | sort | uniq -c | head -5
done
