#!/bin/bash
# Offline setup: contracts libraries beside the repository's own interpreter.
HERE="$(cd "$(dirname "${BASH_SOURCE[0]}")" && pwd)"
mkdir -p "$HERE/.deps" "$HERE/.work" "$HERE/evidence" "$HERE/replays"
if [ ! -d "$HERE/.deps/icontract" ]; then
  PIP_NO_INDEX=1 /venv/bin/pip install --quiet --no-index --find-links /opt/veriftools/wheels \
    --target "$HERE/.deps" icontract deal || exit 1
fi
exit 0
